"""C18 -- filter_output splits sources into two complete, disjoint, faithful files.

The real filter_output + FitInfoFile (read and write) run over the in-memory file system / pickle model on an
input of k records whose best chi^2 is an extended real (>= 0, +inf or NaN) and whose n_data >= 1:
  F1  good ++ bad is a partition of the input: every source in exactly one file, input order kept in each
  F2  every record is unchanged (all arrays, the source, the metadata)
  F3  a source is in the good file  <=>  best chi2 (chi=) / best chi2 per fitted point (cpd=) < threshold
      (threshold different from every attained value)
for explicit and automatic output names, and for the input given as a file or as a list of results.
"""
from __future__ import annotations

import numpy as np
import z3

from symx import core as C, symnp, loader, report as R
from .common import Config, mval, std_assumptions, conj
from . import resfix
from .resfix import snap, same_snap

ID = 'C18'
FLAGSETS = [(1, 4), (1, 2, 0), (4, 4, 1)]


def replay_filter(inp):
    """Concrete twin: the real filter_output on real files."""
    import os
    import shutil
    import tempfile
    ld = loader.real_loader()
    FI = ld.load('sedfitter.fit_info')
    S = ld.load('sedfitter.source.source').Source
    FO = ld.load('sedfitter.filter_output')
    d = tempfile.mkdtemp(prefix='c18-')
    try:
        with ld.registered():
            infos = []
            for i, best in enumerate(inp['best']):
                info = FI.FitInfo()
                s = S()
                s.name = 'src_s%d' % i
                s.valid = np.array(FLAGSETS[i % 3])
                s.flux = np.ones(len(s.valid))
                s.error = np.ones(len(s.valid)) * 0.1
                info.source = s
                n = 1 + i % 2
                info.chi2 = np.array([best] + [float('nan')] * (n - 1), dtype=float)
                info.av = np.arange(n) + 0.5 * i
                info.sc = np.arange(n) * 1.0
                info.model_name = np.array(['ma', 'mb'][:n], dtype='U30')
                info.model_id = np.arange(n)[::-1] * 2 + 3
                info.model_fluxes = None
                info.meta.model_dir, info.meta.filters, info.meta.extinction_law = 'MODELS', [{'name': 'f0', 'aperture_arcsec': 3.0}], None
                infos.append(info)
            allp, gp, bp = (os.path.join(d, n) for n in ('all', 'g', 'b'))
            if inp['as_list']:
                src = infos
            else:
                f = FI.FitInfoFile(allp, 'w')
                for i in infos:
                    f.write(i)
                f.close()
                src = allp
            try:
                if inp['auto_names'] and not inp['as_list']:
                    FO.filter_output(src, **{inp['crit']: inp['thr']})
                    gp, bp = allp + '_good', allp + '_bad'
                else:
                    FO.filter_output(src, output_good=gp, output_bad=bp, **{inp['crit']: inp['thr']})
            except Exception as e:  # noqa: BLE001
                return True, {'raised': '%s: %s' % (type(e).__name__, e)}

            def rd(p):
                if not os.path.exists(p) or os.path.getsize(p) == 0:
                    return []
                f = FI.FitInfoFile(p, 'r')
                out = list(f)
                f.close()
                return out
            good, bad = rd(gp), rd(bp)
            names = [i.source.name for i in infos]
            gn, bn = [i.source.name for i in good], [i.source.name for i in bad]
            if sorted(gn + bn) != sorted(names) or gn != [n for n in names if n in gn] or bn != [n for n in names if n in bn]:
                return True, {'good': gn, 'bad': bn}
            for i, info in enumerate(infos):
                nd = int(np.sum((info.source.valid == 1) | (info.source.valid == 4)))
                cr = info.chi2[0] if inp['crit'] == 'chi' else info.chi2[0] / nd
                if (cr < inp['thr']) != (info.source.name in gn):
                    return True, {'source': info.source.name, 'criterion': float(cr), 'threshold': inp['thr'], 'in_good': info.source.name in gn}
            for o in good + bad:
                ref = infos[names.index(o.source.name)]
                if not (np.array_equal(o.chi2, ref.chi2, equal_nan=True) and np.array_equal(o.av, ref.av) and list(o.model_name) == list(ref.model_name)
                        and list(o.model_id) == list(ref.model_id)):
                    return True, {'record changed': o.source.name}
            return False, {}
    finally:
        shutil.rmtree(d, ignore_errors=True)


def h_filter(k, crit, as_list=False, auto_names=False):
    def run(part):
        std_assumptions(part)
        part.bounds = {'records': k, 'criterion': crit, 'input': 'list of results' if as_list else 'file',
                       'output_names': 'automatic' if auto_names else 'explicit',
                       'best_chi2': 'extended real (finite >= 0, +inf, NaN)', 'n_data': [sum(f in (1, 4) for f in FLAGSETS[i % 3]) for i in range(k)]}
        part.assumptions.add("pickle / file-system stubs (see C19): dump snapshots the real __getstate__, load rebuilds through the real __setstate__")
        rf = resfix.Res()
        fo = rf.L.load('sedfitter.filter_output')
        ex = C.Explorer()
        cl = R.Claims(part, ex, ID)

        def body(c):
            meta = rf.meta_values()
            infos = []
            for i in range(k):
                inf = rf.info(c, 's%d' % i, ['ma', 'mb'][:1 + i % 2], flags=FLAGSETS[i % 3], meta=meta, kinded_chi=True,
                              with_fluxes=(i % 2 == 1))
                infos.append(inf)
            thr = C.fresh_real('threshold')
            crits = []
            for inf in infos:
                best = symnp._plain(inf.chi2)[0]
                nd = int(inf.source.n_data)
                cr = best if crit == 'chi' else best / float(nd)
                c.assume(C.mk_bool(z3.Not(C.real(cr)._eq(thr))))
                crits.append(cr)
            before = [snap(i) for i in infos]
            c.vars = (before, crits, thr)
            if as_list:
                src = infos
            else:
                rf.write_file('/out/all.fitinfo', infos)
                src = '/out/all.fitinfo'
            kw = {crit: thr}
            if auto_names and not as_list:
                fo.filter_output(src, **kw)
                good_p, bad_p = '/out/all.fitinfo_good', '/out/all.fitinfo_bad'
            else:
                fo.filter_output(src, output_good='/out/g', output_bad='/out/b', **kw)
                good_p, bad_p = '/out/g', '/out/b'
            c.vars = (before, crits, thr)

            def read_or_empty(p):
                st = rf.fs.files.get(p)
                if st is None or len(st.records) == 0:
                    return [], None
                return rf.read_file(p)
            good, gm = read_or_empty(good_p)
            bad, bm = read_or_empty(bad_p)
            return good, bad, gm, bm

        with loader.Coverage() as cov:
            for c, out in ex.run(body):
                before, crits, thr = c.vars
                inputs = lambda m: {'best': [mval(m, s['chi2'][0]) for s in before], 'thr': mval(m, thr), 'crit': crit,
                                    'as_list': as_list, 'auto_names': auto_names}
                rp = replay_filter
                if out[0] == 'exc':
                    cl.crash(c, out[1], 'filter_output', inputs, rp)
                    continue
                good, bad, gm, bm = out[1]
                gs, bs = [snap(i) for i in good], [snap(i) for i in bad]
                gn, bn = [s['src'][0] for s in gs], [s['src'][0] for s in bs]
                names = [s['src'][0] for s in before]
                ok = sorted(gn + bn) == sorted(names) and len(set(gn + bn)) == len(names) \
                    and gn == [n for n in names if n in gn] and bn == [n for n in names if n in bn]
                cl.claim(c, bool(ok), 'F1 every source in exactly one output, input order preserved (good=%s bad=%s)' % (gn, bn), inputs, rp)
                if not ok:
                    continue
                byname = {s['src'][0]: s for s in before}
                cl.claim(c, conj([same_snap(s, byname[s['src'][0]]) for s in gs + bs]), 'F2 records are unchanged', inputs, rp)
                g = []
                for i, nme in enumerate(names):
                    below = C.real(crits[i])._lt(thr)
                    g.append(below if nme in gn else z3.Not(below))
                cl.claim(c, conj(g), 'F3 good <=> criterion below the threshold', inputs, rp)
                md_ok = all(m is None or (m.model_dir == 'MODELS' and len(m.filters) == 2) for m in (gm, bm))
                cl.claim(c, bool(md_ok), 'F2 metadata carried to both outputs')
                if part.witnesses < 2:
                    cl.witness(c)
        R.finish_part(part, ex, cov)
    return run


def configs(tier, seed):
    cfgs = []
    for k in ((1, 2, 3) if tier == 'quick' else (1, 2, 3, 4, 5, 6)):
        for crit in ('chi', 'cpd'):
            cfgs.append(Config('filter k=%d %s file explicit-names' % (k, crit), h_filter(k, crit), 1500))
    cfgs.append(Config('filter k=2 chi file automatic-names', h_filter(2, 'chi', auto_names=True), 1500))
    cfgs.append(Config('filter k=2 cpd list-of-results', h_filter(2, 'cpd', as_list=True), 1500))
    cfgs.append(Config('filter k=3 chi list-of-results', h_filter(3, 'chi', as_list=True), 1500))
    return cfgs


def replay(rec):
    return replay_filter(R.unjson_num(rec['inputs']))
