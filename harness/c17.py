"""C17 -- plotted model SEDs are the fitted models.

The real plot(..., output_dir=None) runs over a cube package in the in-memory file system (real parfile.read,
SEDCube.read/get_sed, SED.scale_to_distance, scale_to_av, interpolate, interpolate_variable, Extinction.get_av,
FitInfoFile); only matplotlib's LineCollection is replaced by a recorder.  Decided per path:
  G1  number of curves == selected fits x apertures shown by the display mode (interp: 1; largest: 1;
      largest+smallest: 2; all: number of distinct apertures), for results passed as object or file
  G2  the best fit is drawn last (its curve(s) close the segment list; the others follow the ranking backwards)
  G3  every curve's abscissa is the SED wavelength grid
  G4  (single-aperture packages, every display mode) at each fitted monochromatic wavelength the curve value is
      10**(predicted log10 flux stored with the fit) * nu * 1e-26 erg/cm^2/s, within 1e-3 relative (the rounded
      parsec KPC = 3.086e21 cm used by plot accounts for 2e-4)
Multi-aperture packages: G1-G3, and the curve is the real interpolate / interpolate_variable output (decided in C13).
"""
from __future__ import annotations

import numpy as np
import z3

from symx import core as C, symnp, loader, report as R, symunits as su, symio
from .common import Config, mval, close, std_assumptions, conj
from . import pkgfix, resfix, fitfix
from .sedfix import U

ID = 'C17'
KPC_PLOT = 3.086e21


class Recorder:
    made = []

    def __init__(self, segments, colors=None, **kw):
        # matplotlib validates the colours when a LineCollection is built; keep that part of its contract
        import matplotlib.colors as mc
        if colors is not None:
            mc.to_rgba_array(colors)
            if len(colors) != len(segments):
                raise ValueError("colors and segments differ in length")
        self.segments = segments
        self.colors = colors
        Recorder.made.append(self)


def replay_plot(inp):
    """Concrete twin: the real plot() with the real matplotlib (Agg) on a real cube package."""
    import os
    import shutil
    import tempfile
    import matplotlib
    matplotlib.use('Agg')
    import astropy.units as u
    ld = loader.real_loader()
    CU = ld.load('sedfitter.sed.cube').SEDCube
    FI = ld.load('sedfitter.fit_info')
    S = ld.load('sedfitter.source.source').Source
    EX = ld.load('sedfitter.extinction.extinction').Extinction
    PL = ld.load('sedfitter.plot')
    n_ap, nsel, sed_type = inp['n_ap'], inp['n_sel'], inp['sed_type']
    d = tempfile.mkdtemp(prefix='c17-')
    try:
        with ld.registered():
            open(os.path.join(d, 'models.conf'), 'w').write("name = t\nlength_subdir = 0\naperture_dependent = no\nlogd_step = 0.02\nversion = 2\n")
            names = ['m_b', 'm_a']
            cu = CU()
            cu.names, cu.distance = names, 1 * u.kpc
            cu.wav = np.array([1.0, 2.0, 4.0]) * u.micron
            cu.apertures = (np.array([100.0]) if n_ap == 1 else np.array([1000.0 * (i + 1) for i in range(n_ap)])) * u.au
            rng = np.random.default_rng(5)
            val = rng.uniform(1, 5, (2, n_ap, 3))
            cu.val, cu.unc = val * u.mJy, 0.1 * val * u.mJy
            cu.write(os.path.join(d, 'flux.fits'))
            e = EX()
            e.wav = np.array([0.1, 1.0, 10.0]) * u.micron
            e.chi = np.array([10.0, 1.0, 0.1]) * u.cm ** 2 / u.g
            aps = [3.0, 3.0] if n_ap == 1 else [3.0, 5.0]
            filters = [{'aperture_arcsec': aps[i], 'wav': w * u.micron} for i, w in enumerate((1.0, 4.0))]
            k = e.get_av(np.array([1.0, 4.0]) * u.micron).value
            info = FI.FitInfo()
            s = S()
            s.name, s.valid, s.flux, s.error = 'src_p', np.array([4, 4]), np.array([0.1, 0.2]), np.array([0.1, 0.1])
            info.source = s
            # (multi-aperture: scales that keep 3" and 5" inside the 1000-2000 AU table)
            info.av, info.sc, info.chi2 = np.array([1.0, 2.0])[:nsel], (np.array([0.1, 0.0]) if n_ap == 1 else np.array([-0.45, -0.41]))[:nsel], np.array([1.0, 2.0])[:nsel]
            info.model_name = np.array(names[:nsel], dtype='U30')
            info.model_id = np.arange(nsel)
            cols = (2, 0) if False else (0, 2)
            info.model_fluxes = np.array([[np.log10(val[i, 0, c_]) + info.av[i] * k[f] - 2 * info.sc[i] for f, c_ in enumerate((0, 2))] for i in range(nsel)])
            info.meta.model_dir, info.meta.filters, info.meta.extinction_law = d, filters, e
            SEDc = ld.load('sedfitter.sed.sed').SED
            seen = []
            r_i, r_iv = SEDc.interpolate, SEDc.interpolate_variable

            def o_i(self_, apertures):
                seen.append(('interpolate', self_.name, np.array(getattr(apertures, 'value', apertures), dtype=float).reshape(-1)))
                return r_i(self_, apertures)

            def o_iv(self_, wavelengths, apertures):
                seen.append(('interpolate_variable', self_.name, np.array(getattr(apertures, 'value', apertures), dtype=float).reshape(-1)))
                return r_iv(self_, wavelengths, apertures)
            SEDc.interpolate, SEDc.interpolate_variable = o_i, o_iv
            try:
                figs = PL.plot(info, output_dir=None, select_format=('A', 0), sed_type=sed_type)
            except Exception as ex:  # noqa: BLE001
                return True, {'raised': '%s: %s' % (type(ex).__name__, ex)}
            finally:
                SEDc.interpolate, SEDc.interpolate_variable = r_i, r_iv
            want_ap = {'interp': list(aps), 'largest': [max(aps)], 'largest+smallest': [min(aps), max(aps)], 'all': sorted(set(aps))}[sed_type]
            top = [x for x in seen if x[0] == ('interpolate_variable' if sed_type == 'interp' else 'interpolate')]
            if len(top) != nsel:
                return True, {'interpolate_calls': len(top), 'expected': nsel}
            for pos, (_k, nme, got) in enumerate(top):
                fit = nsel - 1 - pos
                want = np.array(want_ap) * 10. ** info.sc[fit] * 1000.
                if str(nme).strip() != names[fit] or len(got) != len(want) or not np.allclose(got, want, rtol=1e-9):
                    return True, {'fit': fit, 'sed': str(nme), 'apertures_passed_AU': got.tolist(), 'expected_AU': want.tolist()}
            segs = figs['src_p']['lines'].get_segments()
            ncur = N_CURVES[sed_type](len(set(aps)) if sed_type == 'all' else n_ap)
            if len(segs) != nsel * ncur:
                return True, {'curves': len(segs), 'expected': nsel * ncur}
            if n_ap == 1:
                for pos in range(nsel):
                    fit = nsel - 1 - pos
                    for cidx in range(ncur):
                        seg = segs[pos * ncur + cidx]
                        for fidx, lam in enumerate((1.0, 4.0)):
                            j = [float(x) for x in seg[:, 0]].index(lam)
                            want = 10 ** info.model_fluxes[fit, fidx] * (299792458.0 / (lam * 1e-6)) * 1e-26
                            if not close(seg[j, 1], want, 2e-3, 0.0):
                                return True, {'fit': fit, 'wavelength': lam, 'drawn': float(seg[j, 1]), 'predicted': float(want)}
            return False, {}
    finally:
        shutil.rmtree(d, ignore_errors=True)


N_CURVES = {'interp': lambda nap: 1, 'largest': lambda nap: 1, 'largest+smallest': lambda nap: 2, 'all': lambda nap: nap}


def h_plot(sed_type, n_ap, n_sel, form, nm=2):
    def run(part):
        std_assumptions(part)
        part.bounds = {'display_mode': sed_type, 'package_apertures': n_ap, 'selected_fits': n_sel, 'models': nm, 'input': form,
                       'cube_wavelengths': [1.0, 2.0, 4.0], 'fitted_at': [1.0, 4.0], 'filter_apertures_arcsec': [3.0, 3.0] if n_ap == 1 else [3.0, 5.0]}
        part.assumptions |= {"matplotlib's LineCollection is replaced by a recorder of its arguments that validates the colours as matplotlib does; nothing is rendered",
                             "file-system / pickle / FITS stubs (C12, C19); cube wavelengths and the extinction table concrete, fluxes / A_V / scale symbolic",
                             "log10 / 10** uninterpreted inverses with the product rule"}
        pk = pkgfix.Pkg()
        rf = resfix.Res.__new__(resfix.Res)
        rf.L, rf.fs = pk.L, pk.fs
        rf.fi = pk.L.load('sedfitter.fit_info')
        rf.src = pk.L.load('sedfitter.source.source')
        rf.ext = pk.L.load('sedfitter.extinction.extinction')
        rf.models = pk.L.load('sedfitter.models')
        plotmod = pk.L.load('sedfitter.plot')
        plotmod.LineCollection = Recorder
        # observation at the boundary of SED.interpolate / interpolate_variable: which model's SED is evaluated at which apertures
        sedmod = pk.L.load('sedfitter.sed.sed')
        calls = []
        in_i, in_iv = sedmod.SED.interpolate, sedmod.SED.interpolate_variable

        def obs_i(self_, apertures):
            calls.append(('interpolate', self_.name, symnp._obj(su.value_of(apertures)).reshape(-1).copy()))
            return in_i(self_, apertures)

        def obs_iv(self_, wavelengths, apertures):
            calls.append(('interpolate_variable', self_.name, symnp._obj(su.value_of(apertures)).reshape(-1).copy()))
            return in_iv(self_, wavelengths, apertures)
        sedmod.SED.interpolate, sedmod.SED.interpolate_variable = obs_i, obs_iv
        ex = C.Explorer(query_timeout_ms=60000, log_monotone=(n_ap > 1), pow10_monotone=(n_ap > 1))
        cl = R.Claims(part, ex, ID)
        names = ['m_%s' % 'ba'[i] for i in range(nm)]
        wl = [1.0, 2.0, 4.0]
        aps_arcsec = [3.0, 3.0] if n_ap == 1 else [3.0, 5.0]

        def body(c):
            Recorder.made = []
            del calls[:]
            pk.fs.files.clear()
            pk.fs.dirs.clear()
            grid = dict(w=symnp.SymArray(wl), names=names,
                        ap=symnp.SymArray([100.0]) if n_ap == 1 else symnp.SymArray([1000.0 * (i + 1) for i in range(n_ap)]),
                        flux={n: symnp.sym_array('F_' + n, (n_ap, 3)) for n in names}, err={n: symnp.sym_array('E_' + n, (n_ap, 3)) for n in names})
            for n in names:
                for p in np.ndindex(n_ap, 3):
                    c.assume(grid['flux'][n][p] > 0)
            pk.conf('CUBE', 2)
            pk.write_cube('CUBE', grid)
            ext = rf.extinction()
            filters = [{'aperture_arcsec': aps_arcsec[i], 'wav': w * U.micron} for i, w in enumerate((1.0, 4.0))]
            info = rf.info(c, 'p', names[:n_sel] if n_sel <= nm else names, flags=(4, 4), meta=('CUBE', filters, ext), with_fluxes=True)
            raw_sc = symnp._plain(info.sc)
            if n_ap == 1:
                # the predicted fluxes stored with a fit are  log10 F_model + A_V k - 2 scale  (what Models.fit returns: C04/R4)
                kq = symnp._obj(su.value_of(ext.get_av(np.array([1.0, 4.0]) * U.micron)))
                mfr = symnp._plain(info.model_fluxes)
                for i, nme in enumerate(str(x) for x in info.model_name):
                    for fidx, col in enumerate((0, 2)):
                        mfr[i, fidx] = fitfix.slog10(grid['flux'][nme][0, col]) + symnp._plain(info.av)[i] * kq[fidx] - 2.0 * raw_sc[i]
            if n_ap > 1:
                # keep every requested aperture inside the tabulated range (the clamp of interpolate_variable is finding F12 of C13)
                for i in range(len(raw_sc)):
                    for a in aps_arcsec:
                        q = a * C.s_pow10(raw_sc[i]) * 1000.0
                        c.assume(q >= grid['ap'][0])
                        c.assume(q <= grid['ap'][n_ap - 1])
            c.vars = dict(grid=grid, info=info, av=list(symnp._plain(info.av)), sc=list(raw_sc), names=[str(x) for x in info.model_name],
                          mf=[list(r) for r in symnp._plain(info.model_fluxes)], ext=ext)
            if form == 'file':
                rf.write_file('/out/fits.fitinfo', [info])
                src = '/out/fits.fitinfo'
            else:
                src = info
            return plotmod.plot(src, output_dir=None, select_format=('A', 0), sed_type=sed_type)

        with loader.Coverage() as cov:
            for c, out in ex.run(body):
                rinp = lambda m: {'n_ap': n_ap, 'n_sel': n_sel, 'sed_type': sed_type, 'form': form}
                if out[0] == 'exc':
                    cl.crash(c, out[1], 'plot(sed_type=%s)' % sed_type, rinp, replay_plot)
                    continue
                v = c.vars
                figs = out[1]
                nsel = len(v['names'])
                distinct = len(set(aps_arcsec))
                ncur = N_CURVES[sed_type](distinct if sed_type == 'all' else n_ap)
                ok = list(figs.keys()) == ['src_p'] and 'lines' in figs['src_p']
                segs = figs['src_p']['lines'].segments if ok else []
                cl.claim(c, bool(ok and len(segs) == nsel * ncur), 'G1 number of curves == %d selected fits x %d curves for mode %s (got %d)'
                         % (nsel, ncur, sed_type, len(segs)), rinp, replay_plot)
                if not ok or len(segs) != nsel * ncur:
                    continue
                # G3: abscissa; which SED index belongs to which wavelength
                g = []
                order_w = None
                for s in segs:
                    xs = [x for x in symnp._obj(s)[:, 0]]
                    g.append(z3.BoolVal(sorted(float(x) for x in xs) == sorted(wl)))
                    order_w = [float(x) for x in xs]
                cl.claim(c, conj(g), 'G3 every curve is drawn over the SED wavelength grid')
                # G2 + G4: curves appear from the worst selected fit to the best; identify by value
                if n_ap == 1:
                    from fractions import Fraction
                    kpc_cm = su._scale(su._u.kpc) / su._scale(su._u.cm)
                    r2 = (kpc_cm / Fraction(KPC_PLOT)) ** 2
                    assert abs(float(r2) - 1) < 1e-3
                    rv_tol = C.rv(0.00043)
                    g = []
                    for pos in range(nsel):
                        fit = nsel - 1 - pos          # drawn from the last selected fit down to the best one
                        for cidx in range(ncur):
                            seg = symnp._obj(segs[pos * ncur + cidx])
                            for fidx, lam in enumerate((1.0, 4.0)):
                                j = order_w.index(lam)
                                val = seg[j, 1]
                                nu_hz = 299792458.0 / (lam * 1e-6)
                                pred = v['mf'][fit][fidx]
                                # log10(curve / (nu * 1e-26)) == predicted log10 flux (mJy) within the rounding of the constants
                                # (KPC = 3.086e21 cm instead of 3.0857e21: 9e-5 dex; tolerance 4.3e-4 dex = 1e-3 relative)
                                lhs = C.s_log10(val / (C.real(rv_fr(nu_hz)) * rv_fr(1e-26)))
                                d = C.real(lhs - pred)
                                g.append(z3.And(d.t < rv_tol, d.t > -rv_tol))
                    cl.claim(c, conj(g), 'G2/G4 curves run from the last selected fit to the best; each passes through the predicted flux of its fit '
                             'at the fitted wavelengths (within 1e-3)', rinp, replay_plot)
                # G5: every fit's SED is evaluated at that fit's own physical apertures: arcsec x 10**scale(kpc) x 1000 AU, for the
                # apertures the display mode shows, in drawing order (from the last selected fit to the best)
                want_ap = {'interp': list(aps_arcsec), 'largest': [max(aps_arcsec)], 'largest+smallest': [min(aps_arcsec), max(aps_arcsec)],
                           'all': sorted(set(aps_arcsec))}[sed_type]
                top = [cc for cc in calls if cc[0] == ('interpolate_variable' if sed_type == 'interp' else 'interpolate')]
                if sed_type == 'interp':
                    top = [cc for cc in calls if cc[0] == 'interpolate_variable']
                else:
                    top = [cc for cc in calls if cc[0] == 'interpolate']
                ok5 = len(top) == nsel
                g = []
                if ok5:
                    for pos, (_kind, nme, aps) in enumerate(top):
                        fit = nsel - 1 - pos
                        ok5 = ok5 and str(nme).strip() == v['names'][fit] and len(aps) == len(want_ap)
                        if ok5:
                            for a_arc, got in zip(want_ap, aps):
                                g.append(C.same(got, a_arc * C.s_pow10(v['sc'][fit]) * 1000.0))
                cl.claim(c, conj(g) if ok5 else False, 'G5 each fit\'s own SED is evaluated at its own apertures (arcsec x 10**scale x 1000 AU) for mode %s' % sed_type,
                         rinp, replay_plot)
                if part.witnesses < 2:
                    cl.witness(c)
        R.finish_part(part, ex, cov)
    return run


def rv_fr(x):
    from fractions import Fraction
    return C.SymReal(C.rv(Fraction(x) if not isinstance(x, Fraction) else x))


def configs(tier, seed):
    q = tier == 'quick'
    cfgs = []
    for sed_type in ('interp', 'largest', 'largest+smallest', 'all'):
        cfgs.append(Config('plot mode=%s single-aperture 2 fits object' % sed_type, h_plot(sed_type, 1, 2, 'object'), 1500))
    cfgs.append(Config('plot mode=interp single-aperture 1 fit file', h_plot('interp', 1, 1, 'file'), 1500))
    cfgs.append(Config('plot mode=largest single-aperture 2 fits file', h_plot('largest', 1, 2, 'file'), 1500))
    for sed_type in (('largest', 'all') if q else ('largest', 'largest+smallest', 'all', 'interp')):
        cfgs.append(Config('plot mode=%s two-aperture 1 fit object' % sed_type, h_plot(sed_type, 2, 1, 'object'), 3000))
    for sed_type in (('largest', 'interp') if q else ('largest', 'largest+smallest', 'all', 'interp')):
        cfgs.append(Config('plot mode=%s two-aperture 2 fits object' % sed_type, h_plot(sed_type, 2, 2, 'object'), 3000))
    return cfgs


def replay(rec):
    return replay_plot(R.unjson_num(rec['inputs']))
