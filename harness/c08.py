"""C08 -- a planted model is recovered through the pipeline.

R1  (fit level, both modes) photometry synthesised from model m at (A_V0 in range, scale s0 | grid distance d0):
    chi2_m = 0, A_V_m = A_V0, scale_m = s0 (log10 d0), every other chi2 >= 0, and rank 1 is m unless another
    model also reaches chi2 = 0; flag-4 points, and flag-1 points with a uniform relative error (the transform
    then shifts the scale by a constant)
R2  (chain on the file model) cube package in the in-memory file system -> real Models.read (wavelength
    filters) -> real Fitter -> real fit() loop -> fit file -> real write_parameters with every permutation of
    the parameter file: the first data row names m, reports chi2 0, A_V0, s0 and prints m's own parameter row
The broadband-convolution and file round-trip links of the chain are decided in C06, C07, C12 (composition).
"""
from __future__ import annotations

import itertools

import numpy as np
import z3

from symx import core as C, symnp, loader, report as R, symunits as su, symio
from .common import Config, mval, close, std_assumptions, conj
from . import fitfix, pkgfix, resfix
from .fitfix import Scenario, LN10
from .c10 import VTok, LineObj, FakeData
from .c09 import parse_numbers, same_tok

ID = 'C08'
U = su.module


def replay_plant(inp):
    """Concrete twin of R1: plant numerically and fit with the real code."""
    M = np.array(inp['M'], dtype=float)
    k = np.array(inp['k'], dtype=float)
    m, A0, s0 = inp['m'], inp['A0'], inp['s0']
    flags = inp['flags']
    threed = M.ndim == 3
    L = np.log10(M[m, inp['d0']] if threed else M[m])
    y = L + A0 * k - (0.0 if threed else 2.0 * s0)
    F, E = [], []
    for j, fl in enumerate(flags):
        if fl == 4:
            F.append(float(y[j]))
            E.append(float(inp['E'][j]))
        elif fl == 1:
            rho = inp['rho']
            f = 10. ** y[j]
            F.append(float(f))
            E.append(float(rho * f))
        else:
            F.append(float(inp['F'][j]))
            E.append(float(inp['E'][j]))
    q = dict(inp, F=F, E=E)
    try:
        info, _, _ = fitfix.real_fit_inputs(q)
    except Exception as e:  # noqa: BLE001
        return True, {'raised': '%s: %s' % (type(e).__name__, e)}
    names = inp['names']
    row = [str(x) for x in info.model_name].index(names[m])
    shift = 0.0 if all(fl == 4 for fl in flags if fl in (1, 4)) else 0.25 * inp['rho'] ** 2 / LN10
    want_sc = (inp['logd'][inp['d0']] if threed else s0 + shift)
    bad = []
    if not close(info.chi2[row], 0.0, 0, 1e-7):
        bad.append(('chi2 of the planted model', float(info.chi2[row])))
    at_planted = (not threed) or close(info.sc[row], want_sc, 1e-9, 1e-12)
    if at_planted and not close(info.av[row], A0, 1e-6, 1e-7):
        bad.append(('av', float(info.av[row]), A0))
    if not threed and not close(info.sc[row], want_sc, 1e-6, 1e-7):
        bad.append(('sc', float(info.sc[row]), want_sc))
    if float(info.chi2[0]) > 1e-7:
        bad.append(('rank 1 chi2', float(info.chi2[0])))
    return bool(bad), {'mismatch': bad}


def h_plant(flags, nm, nd=None):
    nf = len(flags)

    def run(part):
        std_assumptions(part)
        part.bounds = {'filters': nf, 'models': nm, 'distances': nd, 'flags': ''.join(map(str, flags)), 'planted': 'every model index, any A_V0 in [lo,hi], any scale / every grid distance'}
        part.assumptions |= {"log10 / 10** uninterpreted inverses (log10 10**t = t)", "Models.fit called directly (Fitter wiring decided in C01)",
                             "lemma chaining: equations proved at the linear_regression / optimal_scaling / chi_squared boundaries (and each proved claim) are added to the path's assumptions; the definitions of the cut variables they pin are left out of the relevance-staged queries (hypotheses only dropped; last stage is the full set)",
                             "sign facts: a cut variable whose definition is structurally a sum of squares times non-negative factors is stated >= 0 (guarded by non-zero denominators)"}
        fx = fitfix.Fit()
        ex = C.Explorer(query_timeout_ms=60000, nonneg_facts=True)
        cl = R.Claims(part, ex, ID)
        st = {}
        inner_lr, inner_os = fx.fr.linear_regression, fx.fr.optimal_scaling

        def lemma(goals, label, pinned=()):
            c = C.ctx()
            if cl.claim(c, conj(goals), label, st.get('inputs'), replay_plant, timeout_ms=120000):
                c.pre.append(conj(goals))
                c.supersede(*pinned)

        def lr(*a, **kw):
            # lemma chaining: the unconstrained regression of the planted model returns exactly the planted values;
            # proved here (one query), then assumed, so that the clamping forks of that model are decided
            r = inner_lr(*a, **kw)
            if st.get('plant') is not None:
                m, A0, s0sh = st['plant']
                av_ = symnp._obj(su.value_of(r[0])).reshape(-1)
                sc_ = symnp._obj(su.value_of(r[1])).reshape(-1)
                lemma([C.same(av_[m], A0), C.same(sc_[m], s0sh)], 'R1 lemma: the regression of the planted model returns the planted A_V and scale',
                      pinned=(av_[m], sc_[m]))
            return r

        def os_(*a, **kw):
            r = inner_os(*a, **kw)
            if st.get('plant3') is not None:
                m, d0, A0 = st['plant3']
                u_ = symnp._obj(su.value_of(r))
                if u_.ndim == 2:
                    lemma([C.same(u_[m, d0], A0)], 'R1 lemma: the 1-D optimum of the planted model at the planted distance is the planted A_V',
                          pinned=(u_[m, d0],))
            return r
        inner_chi = fx.fr.chi_squared

        def chi_(*a, **kw):
            r = inner_chi(*a, **kw)
            pl = st.get('plant') or st.get('plant3')
            if pl is not None:
                ch_ = symnp._obj(su.value_of(r))
                x = ch_[pl[0]] if ch_.ndim == 1 else ch_[pl[0], pl[1]] if ch_.ndim == 2 else None
                if x is not None:
                    lemma([C.same(x, 0.0)], 'R1 lemma: chi2 of the planted model at the planted point is 0', pinned=(x,))
            return r
        fx.fr.linear_regression, fx.fr.optimal_scaling, fx.fr.chi_squared = lr, os_, chi_

        def make_body(m, d0):
            def body(c):
                sc = Scenario(c, flags, nm, nd)
                A0, s0 = C.fresh_real('A0'), C.fresh_real('s0')
                c.assume(A0 >= sc.lo)
                c.assume(A0 <= sc.hi)
                rho = C.fresh_real('rho')
                c.assume(rho > 0)
                F, E = sc.F.copy(), sc.E.copy()
                for j, fl in enumerate(flags):
                    Lm = fitfix.slog10(sc.M[m, j] if nd is None else sc.M[m, d0, j])
                    y = Lm + A0 * sc.k[j] - (2.0 * s0 if nd is None else 0.0)
                    if fl == 4:
                        symnp._plain(F)[j] = y
                    elif fl == 1:
                        f = C.s_pow10(y)
                        symnp._plain(F)[j] = f
                        symnp._plain(E)[j] = rho * f
                sc.F, sc.E = F, E
                c.vars = (sc, A0, s0, rho)
                fitted_flags = [fl for fl in flags if fl in (1, 4)]
                shift = 0.0 if all(fl == 4 for fl in fitted_flags) else 0.25 * rho * rho / LN10
                st.clear()
                st['inputs'] = lambda mm: dict(sc.inputs(mm), m=m, d0=d0, A0=mval(mm, A0), s0=mval(mm, s0), rho=mval(mm, rho))
                if nd is None:
                    st['plant'] = (m, A0, s0 + shift)
                else:
                    st['plant3'] = (m, d0, A0)
                return sc.fit(fx)
            return body

        with loader.Coverage() as cov:
            for m in range(nm):
                for d0 in (range(nd) if nd is not None else [None]):
                    for c, out in ex.run(make_body(m, d0)):
                        sc, A0, s0, rho = c.vars

                        def inputs(mm, sc=sc, m=m, d0=d0, A0=A0, s0=s0, rho=rho):
                            d = sc.inputs(mm)
                            d.update(m=m, d0=d0, A0=mval(mm, A0), s0=mval(mm, s0), rho=mval(mm, rho))
                            return d
                        if out[0] == 'exc':
                            cl.crash(c, out[1], 'fit of a planted source', inputs, replay_plant)
                            continue
                        info = out[1]
                        names_r = [str(x) for x in info.model_name]
                        row = names_r.index(sc.names[m])
                        av, s_, chi = (list(symnp._obj(su.value_of(x))) for x in (info.av, info.sc, info.chi2))
                        fitted_flags = [fl for fl in flags if fl in (1, 4)]
                        shift = 0.0 if all(fl == 4 for fl in fitted_flags) else 0.25 * rho * rho / LN10
                        where = 'planted model %d%s' % (m, '' if d0 is None else ' at distance %d' % d0)
                        g = [C.same(chi[row], 0.0)]
                        if nd is None:
                            g += [C.same(av[row], A0), C.same(s_[row], s0 + shift)]
                        else:
                            # another grid distance may fit exactly too (degenerate by reddening): A_V0 is promised at d0
                            g.append(z3.Implies(C.same(s_[row], sc.logd[d0]), C.same(av[row], A0)))
                            g.append(z3.Or([C.same(s_[row], sc.logd[d]) for d in range(nd)]))
                        # one query per conjunct group: each has a small relevance cone
                        # (a claim that has been proved is then assumed for the next one: lemma chaining)
                        for gg, lab in ((conj(g), 'chi2 = 0, A_V = A_V0, scale = planted'),
                                        (conj([C.bterm(C.real(x) >= 0) for x in chi]), 'every chi2 >= 0'),
                                        (C.same(chi[0], 0.0), 'rank 1 has chi2 0')):
                            if cl.claim(c, gg, 'R1 %s: %s' % (where, lab), inputs, replay_plant):
                                c.pre.append(gg.t if isinstance(gg, C.SymBool) else gg)
                        if part.witnesses < 2:
                            cl.witness(c)
        R.finish_part(part, ex, cov)
    return run


def h_chain(nm, perm_all=True):
    """cube package -> Models.read -> Fitter -> fit() -> fit file -> write_parameters."""
    def run(part):
        std_assumptions(part)
        part.bounds = {'models': nm, 'cube_wavelengths': [1.0, 2.0, 4.0], 'filters': 'wavelengths 1 and 4 micron', 'planted': 'every model, any A_V0 in range, any scale', 'model_fluxes': 'concrete, non-degenerate',
                       'parameter_file_rows': 'every permutation'}
        part.assumptions |= {"file-system / pickle / FITS stubs (C12, C19); cube wavelengths and the extinction table are concrete, fluxes symbolic",
                             "printed numbers are injective sentinels"}
        pk = pkgfix.Pkg()
        rf = resfix.Res.__new__(resfix.Res)
        rf.L, rf.fs = pk.L, pk.fs
        rf.fi = pk.L.load('sedfitter.fit_info')
        rf.src = pk.L.load('sedfitter.source.source')
        rf.ext = pk.L.load('sedfitter.extinction.extinction')
        rf.models = pk.L.load('sedfitter.models')
        fitmod = pk.L.load('sedfitter.fit')
        wp = pk.L.load('sedfitter.write_parameters')
        for t in ('linear_regression', 'optimal_scaling', 'chi_squared'):
            pk.L.cut('sedfitter.fitting_routines:' + t, t[:2])
        pk.L.cut('sedfitter.source.source:Source.get_log_fluxes', 'glf')
        ex = C.Explorer(query_timeout_ms=60000, nonneg_facts=True)
        cl = R.Claims(part, ex, ID)
        names = ['m_%s' % 'bca'[i] for i in range(nm)]
        wl = [1.0, 2.0, 4.0]

        planted = [0]

        def body(c):
            pk.fs.files.clear()
            pk.fs.dirs.clear()
            # concrete, pairwise non-degenerate model fluxes (the chain is about plumbing: which model, which row, which file);
            # the planted A_V, scale, the errors and the parameter values stay symbolic
            base = [[1.0, 2.0, 4.0], [3.0, 1.5, 0.5], [0.7, 0.9, 2.5]]
            grid = dict(w=symnp.SymArray(wl), ap=symnp.SymArray([100.0]), names=names,
                        flux={n: symnp.SymArray([base[i]]) for i, n in enumerate(names)},
                        err={n: symnp.SymArray([[0.1, 0.1, 0.1]]) for n in names})
            pk.conf('CUBE', 2)
            pk.write_cube('CUBE', grid)
            mass = symnp.sym_array('MASS', nm)
            ext = rf.extinction()
            k = ext.get_av(np.array([1.0, 4.0]) * U.micron)
            kv = [x for x in symnp._obj(su.value_of(k))]      # exactly the numbers the fitter will use
            lo, hi = C.fresh_real('lo'), C.fresh_real('hi')
            c.assume(lo <= hi)
            out = []
            for m in [planted[0]]:
                A0, s0 = C.fresh_real('A0_%d' % m), C.fresh_real('s0_%d' % m)
                c.assume(A0 >= lo)
                c.assume(A0 <= hi)
                E = symnp.sym_array('sig_%d' % m, 2)
                cols = ['planted_%d' % m, VTok(0.0), VTok(0.0), VTok(4), VTok(4)]
                for jj, col in enumerate((0, 2)):
                    c.assume(E[jj] > 0)
                    y = fitfix.slog10(grid['flux'][names[m]][0, col]) + A0 * kv[jj] - 2.0 * s0
                    cols += [VTok(y), VTok(E[jj])]
                c.printing = True
                try:
                    fitmod.fit(FakeData([LineObj(cols)]), [1.0 * U.micron, 4.0 * U.micron], np.array([3.0, 3.0]) * U.arcsec, 'CUBE',
                               '/out/fit_%d.fitinfo' % m, n_data_min=2, extinction_law=ext, av_range=(lo, hi),
                               distance_range=np.array([1., 2.]) * U.kpc, output_format=('N', 2), output_convolved=False)
                finally:
                    c.printing = False
                texts = []
                for perm in (itertools.permutations(range(nm)) if perm_all else [tuple(range(nm))[::-1]]):
                    rf.parameter_file('CUBE', names, {'MASS': mass}, order=perm, pad=False)
                    c.printing = True
                    try:
                        wp.write_parameters('/out/fit_%d.fitinfo' % m, '/out/par.txt', select_format=('N', 1))
                    finally:
                        c.printing = False
                    texts.append((perm, pk.fs.files['/out/par.txt']))
                out.append((m, A0, s0, texts))
            c.vars = (mass,)
            return out

        with loader.Coverage() as cov:
          for pm in range(nm):
            planted[0] = pm
            for c, outc in ex.run(body):
                if outc[0] == 'exc':
                    cl.crash(c, outc[1], 'pipeline')
                    continue
                (mass,) = c.vars
                for (m, A0, s0, texts) in outc[1]:
                    for perm, text in texts:
                        lines = text.splitlines()
                        head = lines[3].split()
                        row = parse_numbers(c, lines[4]) if len(lines) > 4 else []
                        ok = head[0] == 'planted_%d' % m and head[1] == '2' and head[2] == '1' and len(row) == 6
                        g = []
                        if ok:
                            tie = []
                            # the row names m (or a model tied with it at chi2 = 0) and prints that model's own MASS
                            g.append(z3.BoolVal(row[1] in names))
                            if row[1] in names:
                                g.append(same_tok(row[5], symnp._plain(mass)[names.index(row[1])]))
                                g.append(same_tok(row[2], 0.0) if not isinstance(row[2], str) else z3.BoolVal(float(row[2]) == 0.0))
                                if row[1] == names[m]:
                                    g.append(same_tok(row[3], A0))
                                    g.append(same_tok(row[4], s0))
                        cl.claim(c, conj(g) if ok else False,
                                 'R2 chain: first row after planting model %d (parameter rows %s) reports chi2 0 and the named model\'s own parameters' % (m, perm))
                if part.witnesses < 2:
                    cl.witness(c)
        R.finish_part(part, ex, cov)
    return run


def configs(tier, seed):
    q = tier == 'quick'
    cfgs = []
    for flags, nm in ([((4, 4), 2), ((4, 4, 4), 2), ((1, 1), 2), ((1, 1, 1), 2), ((4, 9, 4), 1), ((4, 4), 3)] if q else
                      [((4, 4), 2), ((4, 4, 4), 2), ((1, 1), 2), ((4, 9, 4), 1), ((4, 4), 3), ((1, 1, 1), 2), ((4, 9, 4, 0), 2),
                       ((4, 4, 4, 4), 2), ((4, 4, 4), 3), ((1, 1, 1, 1), 2), ((1, 1), 3), ((4, 4), 4)]):
        if 1 in flags and 4 in flags:
            continue
        cfgs.append(Config('plant 2-D nm=%d flags=%s' % (nm, ''.join(map(str, flags))), h_plant(flags, nm), 3000))
    # distance mode: flag-4 points only (the flag-1 transform shifts log fluxes by -0.5 rho^2/ln10, which only a free scale can absorb)
    for flags, nm, nd in ([((4, 4), 1, 2), ((4, 9, 4), 1, 2), ((4, 4, 4), 1, 3)] if q else
                          [((4, 4), 1, 2), ((4, 9, 4), 1, 2), ((4, 4, 4), 1, 3), ((4, 0, 4), 1, 3), ((4, 4), 2, 2), ((4, 4, 4), 2, 2), ((4, 4), 1, 4), ((4, 4, 4, 4), 1, 3)]):
        cfgs.append(Config('plant 3-D nm=%d nd=%d flags=%s' % (nm, nd, ''.join(map(str, flags))), h_plant(flags, nm, nd), 3000))
    cfgs.append(Config('chain cube->read->fit()->file->write_parameters nm=2', h_chain(2), 3000))
    if not q:
        # three models: only the reversed parameter file (all six row orders for each of the three planted models ran past 6000 s)
        cfgs.append(Config('chain cube->read->fit()->file->write_parameters nm=3 (parameter rows reversed)', h_chain(3, perm_all=False), 6000))
    return cfgs


def replay(rec):
    return replay_plant(R.unjson_num(rec['inputs']))
