"""C06 -- broadband convolution is the binned integral of F_nu * R_nu.

H06a  integrate_subset == exact integral of the piecewise-linear interpolant (either order of
      the samples, either order of the limits).
H06b  Filter.rebin: R_i == integral of the response over bin_i (midpoint edges) clipped to the
      filter range, for filter and SED grids stored in either order.
H06c  normalize() then rebin on a grid covering the filter: sum_i R_i == 1 (flat spectrum -> c).
H06d  the accumulation in _convolve_model_dir_1/_2 (flux = sum F*R, error = sqrt(sum (E*R)^2)) is
      decided in harness C07 (shared file-system model); it is referenced from there.
"""
from __future__ import annotations

import numpy as np
import z3

from symx import core as C, symnp, loader, report as R, symunits as su
from .common import (Config, mval, pw_integral, smin, smax, close, validate_path, std_assumptions, conj)

ID = 'C06'

_real = {}


def real_mod(name):
    if 'ld' not in _real:
        _real['ld'] = loader.real_loader()
    return _real['ld'].load(name)


# ----------------------------------------------------------------------------
# concrete twins (replay against the real code)

def spec_integral_float(x, y, a, b):
    x, y = list(map(float, x)), list(map(float, y))
    if x[-1] < x[0]:
        x, y = x[::-1], y[::-1]
    lo, hi = min(a, b), max(a, b)
    return float(pw_integral(x, y, lo, hi))


def replay_integrate_subset(inp):
    integ = real_mod('sedfitter.utils.integrate')
    x, y = np.array(inp['x'], dtype=float), np.array(inp['y'], dtype=float)
    try:
        got = float(integ.integrate_subset(x, y, float(inp['xmin']), float(inp['xmax'])))
    except Exception as e:  # noqa: BLE001
        return True, {'raised': '%s: %s' % (type(e).__name__, e)}
    want = spec_integral_float(inp['x'], inp['y'], inp['xmin'], inp['xmax'])
    return (not close(got, want, 1e-7, 1e-9)), {'real': got, 'exact': want}


def spec_rebin_float(fnu, fr, snu):
    fnu, fr = list(map(float, fnu)), list(map(float, fr))
    if fnu[-1] < fnu[0]:
        fnu, fr = fnu[::-1], fr[::-1]
    n = len(snu)
    out = []
    for i in range(n):
        e1 = snu[0] if i == 0 else 0.5 * (snu[i - 1] + snu[i])
        e2 = snu[-1] if i == n - 1 else 0.5 * (snu[i] + snu[i + 1])
        lo, hi = min(e1, e2), max(e1, e2)
        out.append(float(pw_integral(fnu, fr, lo, hi)))
    return out


def real_rebin(inp, normalize=False):
    import astropy.units as u
    F = real_mod('sedfitter.filter.filter')
    f = F.Filter(name='f', central_wavelength=1. * u.micron, nu=np.array(inp['fnu'], dtype=float) * u.Hz,
                 response=np.array(inp['fr'], dtype=float))
    if normalize:
        f.normalize()
    return [float(v) for v in f.rebin(np.array(inp['snu'], dtype=float) * u.Hz).response]


def replay_rebin(inp):
    try:
        got = real_rebin(inp)
    except Exception as e:  # noqa: BLE001
        return True, {'raised': '%s: %s' % (type(e).__name__, e)}
    want = spec_rebin_float(inp['fnu'], inp['fr'], inp['snu'])
    bad = [i for i in range(len(want)) if not close(got[i], want[i], 1e-7, 1e-9)]
    return bool(bad), {'real': got, 'exact': want, 'bins': bad}


def replay_normalized(inp):
    try:
        got = real_rebin(inp, normalize=True)
    except Exception as e:  # noqa: BLE001
        return True, {'raised': '%s: %s' % (type(e).__name__, e)}
    s = float(np.sum(got))
    return (not close(s, 1.0, 1e-7)), {'sum_R': s, 'R': got}


# ----------------------------------------------------------------------------
# symbolic harnesses

def _monotone(c, x, ascending):
    for i in range(len(x) - 1):
        c.assume(x[i] < x[i + 1] if ascending else x[i] > x[i + 1])


def h06a(k, ascending):
    def run(part):
        std_assumptions(part)
        part.bounds = {'samples': k, 'storage_order': 'ascending' if ascending else 'descending',
                       'limits': 'any two reals inside the tabulated range, either order'}
        L = loader.Loader()
        integ = L.load('sedfitter.utils.integrate')
        ex = C.Explorer(query_timeout_ms=120000)
        cl = R.Claims(part, ex, ID)
        budget = [6]
        with loader.Coverage() as cov:
            for c, out in ex.run(lambda c: _h06a_body(c, integ, k, ascending)):
                x, y, a, b, res = c.vars
                inputs = lambda m: {'x': mval(m, x), 'y': mval(m, y), 'xmin': mval(m, a), 'xmax': mval(m, b)}
                if out[0] == 'exc':
                    cl.crash(c, out[1], 'H06a integrate_subset', inputs, replay_integrate_subset)
                    continue
                xs, ys = (list(x), list(y)) if ascending else (list(x)[::-1], list(y)[::-1])
                lo_, hi_ = (a, b) if not (a > b) else (b, a)   # forks on the order of the limits
                spec = pw_integral(xs, ys, lo_, hi_)
                cl.claim(c, C.same(out[1], spec), 'H06a integrate_subset == exact integral (k=%d)' % k,
                         inputs, replay_integrate_subset)
                validate_path(part, c, out[1], inputs,
                              lambda i: float(real_mod('sedfitter.utils.integrate').integrate_subset(
                                  np.array(i['x'], dtype=float), np.array(i['y'], dtype=float), i['xmin'], i['xmax'])),
                              'H06a', budget=budget)
        R.finish_part(part, ex, cov)
    return run


def _h06a_body(c, integ, k, ascending):
    x = symnp.sym_array('x', k)
    y = symnp.sym_array('y', k)
    _monotone(c, x, ascending)
    a, b = C.fresh_real('xmin'), C.fresh_real('xmax')
    lo, hi = (x[0], x[k - 1]) if ascending else (x[k - 1], x[0])
    for v in (a, b):
        c.assume(v >= lo)
        c.assume(v <= hi)
    c.vars = (x, y, a, b, None)
    return integ.integrate_subset(x, y, a, b)


def _mk_filter(L, fnu, fr):
    F = L.load('sedfitter.filter.filter')
    u = su.module
    return F.Filter(name='f', central_wavelength=1.0 * u.micron, nu=fnu * u.Hz, response=fr)


def h06b(k, m, f_asc, s_asc, normalized=False):
    def run(part):
        std_assumptions(part)
        part.bounds = {'filter_samples': k, 'sed_frequencies': m,
                       'filter_order': 'ascending' if f_asc else 'descending',
                       'sed_order': 'ascending' if s_asc else 'descending',
                       'responses': 'non-negative reals', 'placement': 'any (disjoint, partial, nested)'
                       if not normalized else 'filter range inside the SED range'}
        part.assumptions.add("astropy unit algebra is executed by astropy itself on concrete shadows (Hz -> Hz here)")
        L = loader.Loader()
        ex = C.Explorer(query_timeout_ms=120000)
        cl = R.Claims(part, ex, ID)
        budget = [6]
        u = su.module

        def body(c):
            fnu = symnp.sym_array('fnu', k)
            fr = symnp.sym_array('fr', k)
            snu = symnp.sym_array('snu', m)
            _monotone(c, fnu, f_asc)
            _monotone(c, snu, s_asc)
            for i in range(k):
                c.assume(fr[i] >= 0)
                c.assume(fnu[i] > 0)
            for i in range(m):
                c.assume(snu[i] > 0)
            if normalized:
                flo, fhi = (fnu[0], fnu[k - 1]) if f_asc else (fnu[k - 1], fnu[0])
                slo, shi = (snu[0], snu[m - 1]) if s_asc else (snu[m - 1], snu[0])
                c.assume(slo <= flo)
                c.assume(fhi <= shi)
                xs, ys = (list(fnu), list(fr)) if f_asc else (list(fnu)[::-1], list(fr)[::-1])
                total = pw_integral(xs, ys, flo, fhi)
                c.assume(total > 0)
            c.vars = (fnu, fr, snu)
            f = _mk_filter(L, fnu, fr)
            if normalized:
                f.normalize()
            g = f.rebin(snu * u.Hz)
            return g.response

        with loader.Coverage() as cov:
            for c, out in ex.run(body):
                fnu, fr, snu = c.vars
                inputs = lambda mm: {'fnu': mval(mm, fnu), 'fr': mval(mm, fr), 'snu': mval(mm, snu)}
                rp = replay_normalized if normalized else replay_rebin
                tag = 'H06c' if normalized else 'H06b'
                if out[0] == 'exc':
                    cl.crash(c, out[1], tag + ' Filter.rebin', inputs, rp)
                    continue
                resp = out[1]
                if normalized:
                    tot = 0.0
                    for i in range(m):
                        tot = tot + resp[i]
                    cl.claim(c, C.same(tot, 1.0), 'H06c normalised filter inside the SED range: sum R_i == 1 (k=%d,m=%d)' % (k, m),
                             inputs, rp)
                else:
                    xs, ys = (list(fnu), list(fr)) if f_asc else (list(fnu)[::-1], list(fr)[::-1])
                    goals = []
                    for i in range(m):
                        e1 = snu[0] if i == 0 else 0.5 * (snu[i - 1] + snu[i])
                        e2 = snu[m - 1] if i == m - 1 else 0.5 * (snu[i] + snu[i + 1])
                        lo_, hi_ = (e1, e2) if s_asc else (e2, e1)
                        spec = pw_integral(xs, ys, lo_, hi_)
                        goals.append(C.same(resp[i], spec))
                    cl.claim(c, conj(goals), 'H06b R_i == integral over bin_i within the filter range (k=%d,m=%d)' % (k, m),
                             inputs, rp)
                validate_path(part, c, list(resp), inputs, lambda i: real_rebin(i, normalized), tag, budget=budget)
        R.finish_part(part, ex, cov)
    return run


def h06e(k, m):
    """Filter.read (two-column wavelength/response text file, loadtxt stubbed) feeding rebin: the filter then lives on a
    DEcreasing frequency grid nu = c / lambda."""
    def run(part):
        std_assumptions(part)
        part.bounds = {'filter_file_rows': k, 'sed_frequencies': m, 'file': 'wavelength (micron, increasing) and response columns, header "# wav = ..."'}
        part.assumptions |= {"numpy.loadtxt is a stub returning the symbolic columns of the file; open().readline() gives the header line",
                             "wavelength -> frequency through astropy's spectral equivalency (exact c)"}
        from symx import symio
        fs, env = symio.make_env()
        fs.files['/filters/F1.txt'] = "# wav = 1.25\n"
        L = loader.Loader(**env)
        F = L.load('sedfitter.filter.filter')
        ex = C.Explorer(query_timeout_ms=120000)
        cl = R.Claims(part, ex, ID)
        u = su.module

        def body(c):
            lam = symnp.sym_array('lam', k)
            fr = symnp.sym_array('fr', k)
            snu = symnp.sym_array('snu', m)
            _monotone(c, lam, True)
            _monotone(c, snu, True)
            c.assume(lam[0] > 0)
            for i in range(k):
                c.assume(fr[i] >= 0)
            c.assume(snu[0] > 0)
            cols = [lam, fr]
            L.np.loadtxt = lambda filename, usecols=None, dtype=None, **kw: cols[usecols[0]]
            f = F.Filter.read('/filters/F1.txt')
            c.vars = (lam, fr, snu, f)
            return f.rebin(snu * u.Hz).response

        with loader.Coverage() as cov:
            for c, out in ex.run(body):
                lam, fr, snu, f = c.vars
                if out[0] == 'exc':
                    cl.crash(c, out[1], 'H06e Filter.read + rebin')
                    continue
                resp = out[1]
                fnu = [x for x in symnp._obj(f.nu.to(u.Hz).value)]
                ok = f.name == 'F1' and len(fnu) == k
                goals = [C.same(f.central_wavelength.to(u.micron).value, 1.25)]
                xs, ys = fnu[::-1], list(fr)[::-1]        # increasing frequency
                for i in range(m):
                    e1 = snu[0] if i == 0 else 0.5 * (snu[i - 1] + snu[i])
                    e2 = snu[m - 1] if i == m - 1 else 0.5 * (snu[i] + snu[i + 1])
                    goals.append(C.same(resp[i], pw_integral(xs, ys, e1, e2)))
                cl.claim(c, conj(goals) if ok else False, 'H06e a filter read from a wavelength file rebins to the bin integrals (k=%d,m=%d)' % (k, m))
                if part.witnesses < 2:
                    cl.witness(c)
        R.finish_part(part, ex, cov)
    return run


def configs(tier, seed):
    cfgs = []
    ks = [2, 3, 4] if tier == 'quick' else [2, 3, 4, 5, 6]
    for k in ks:
        for asc in (True, False):
            cfgs.append(Config('H06a integrate_subset k=%d %s' % (k, 'asc' if asc else 'desc'), h06a(k, asc), 1500))
    sizes = [(2, 2), (3, 2), (2, 3), (3, 3)] if tier == 'quick' else [(2, 2), (3, 2), (2, 3), (3, 3), (4, 3), (3, 4), (4, 4)]
    for (k, m) in sizes:
        for f_asc in (True, False):
            for s_asc in (True, False):
                cfgs.append(Config('H06b rebin k=%d m=%d filter-%s sed-%s' % (k, m, 'asc' if f_asc else 'desc', 'asc' if s_asc else 'desc'),
                                   h06b(k, m, f_asc, s_asc), 3000))
    nsizes = [(2, 2), (3, 2), (2, 3)] if tier == 'quick' else [(2, 2), (3, 2), (2, 3), (3, 3), (4, 3)]
    for (k, m) in nsizes:
        for f_asc in (True, False):
            for s_asc in (True, False):
                cfgs.append(Config('H06c normalised k=%d m=%d filter-%s sed-%s' % (k, m, 'asc' if f_asc else 'desc', 'asc' if s_asc else 'desc'),
                                   h06b(k, m, f_asc, s_asc, normalized=True), 3000))
    for (k, m) in ([(2, 2)] if tier == 'quick' else [(2, 2), (3, 2), (2, 3)]):
        cfgs.append(Config('H06e Filter.read + rebin k=%d m=%d' % (k, m), h06e(k, m), 3000))
    return cfgs


def replay(rec):
    inp = R.unjson_num(rec['inputs'])
    lab = rec.get('label', '')
    if 'H06a' in lab:
        return replay_integrate_subset(inp)
    if 'H06c' in lab:
        return replay_normalized(inp)
    return replay_rebin(inp)
