"""C07 -- convolved-flux files keep model identity, identically in both package formats (and C06/H06d).

The real _convolve_model_dir_1 (per-file packages) and _convolve_model_dir_2 (cube packages) run over the SAME
symbolic SEDs in the in-memory file system (SED files / cube written and read by the real code, models.conf
parsed by the real parfile.read); Filter.rebin is cut to arbitrary non-negative responses R_i (decided in C06):
  V1  in every convolved file the row labelled X holds, per aperture, flux = sum_i F_X(ap, nu_i) R_i and
      error = sqrt(sum_i (E_X(ap, nu_i) R_i)^2)                                    [= C06/H06d]
  V2  rows follow the parameter table (per-file format; every row permutation, any directory-listing order) /
      the cube order (cube format; a parameter table in another order is refused)
  V3  the filter's central wavelength and the SED apertures are carried
  V4  both formats give identical files, and Models.read on either gives the same names and fluxes
for SEDs / cubes stored in either spectral order.
"""
from __future__ import annotations

import itertools
import os
import shutil
import tempfile

import numpy as np
import z3

from symx import core as C, symnp, loader, report as R, symunits as su, symio
from .common import Config, mval, close, std_assumptions, conj
from . import sedfix, pkgfix
from .sedfix import U

ID = 'C07'


def stub_rebin(L, resp_for):
    """Filter.rebin -> a Filter whose response over the given frequency grid is resp_for(nu values)."""
    FM = L.load('sedfitter.filter.filter')

    def rebin(self, nu_new):
        f = FM.Filter()
        f.name = self.name
        f.central_wavelength = self.central_wavelength
        f.nu = nu_new
        f.response = resp_for(self.name, nu_new)
        return f
    FM.Filter.rebin = rebin
    return FM


def replay_conv(inp):
    """Concrete twin: real packages on disk in both formats, real Filter.rebin."""
    import astropy.units as u
    from astropy.table import Table
    ld = loader.real_loader()
    S = ld.load('sedfitter.sed.sed').SED
    CU = ld.load('sedfitter.sed.cube').SEDCube
    CF = ld.load('sedfitter.convolved_fluxes.convolved_fluxes').ConvolvedFluxes
    conv = ld.load('sedfitter.convolve.convolve')
    FM = ld.load('sedfitter.filter.filter')
    names = inp['names']
    w = np.array(inp['w'], dtype=float)
    d = tempfile.mkdtemp(prefix='c07-')
    try:
        d1, d2 = os.path.join(d, 'v1'), os.path.join(d, 'v2')
        for dd, ver in ((d1, 1), (d2, 2)):
            os.makedirs(os.path.join(dd, 'seds'))
            open(os.path.join(dd, 'models.conf'), 'w').write("name = t\nlength_subdir = 0\naperture_dependent = no\nlogd_step = 0.02\n" + ("version = 2\n" if ver == 2 else ""))
        t = Table()
        t['MODEL_NAME'] = np.array([names[i] for i in inp['par_order']], dtype='S30')
        t.write(os.path.join(d1, 'parameters.fits'))
        t2 = Table()
        t2['MODEL_NAME'] = np.array(names, dtype='S30')
        t2.write(os.path.join(d2, 'parameters.fits'))
        val = np.array([inp['flux'][n] for n in names], dtype=float)
        unc = np.array([inp['err'][n] for n in names], dtype=float)
        for i, n in enumerate(names):
            s = S()
            s.name, s.distance = n, 1 * u.kpc
            s.wav = w * u.micron
            s.apertures = np.array(inp['ap'], dtype=float) * u.au
            s.flux, s.error = val[i] * u.mJy, unc[i] * u.mJy
            s.write(os.path.join(d1, 'seds', n + '_sed.fits'))
        cu = CU()
        cu.names, cu.distance = names, 1 * u.kpc
        cu.wav = w * u.micron
        cu.apertures = np.array(inp['ap'], dtype=float) * u.au
        cu.val, cu.unc = val * u.mJy, unc * u.mJy
        cu.write(os.path.join(d2, 'flux.fits'))
        # a two-sample filter spanning the whole grid
        nu = 299792458.0 / (w * 1e-6)
        nfilt = int(inp.get('nfilt', 1))
        fs = [FM.Filter(name='filt%d' % q, central_wavelength=float(np.mean(w)) * u.micron,
                        nu=np.array([nu.min() * 0.9, nu.max() * 1.1]) * u.Hz, response=np.array([1.0 + q, 2.0])) for q in range(nfilt)]
        try:
            conv._convolve_model_dir_1(d1, fs)
            conv._convolve_model_dir_2(d2, fs, memmap=False)
        except Exception as e:  # noqa: BLE001
            return True, {'raised': '%s: %s' % (type(e).__name__, e)}
        sed_nu = np.sort(nu)
        order = np.argsort(nu)
        bad = []
        for q, f in enumerate(fs):
          c1, c2 = CF.read(os.path.join(d1, 'convolved', 'filt%d.fits' % q)), CF.read(os.path.join(d2, 'convolved', 'filt%d.fits' % q))
          # expected from the real rebinned response
          R_ = f.rebin(sed_nu * u.Hz).response
          for fmt, cf, rows in (('per-file', c1, [names[i] for i in inp['par_order']]), ('cube', c2, names)):
            if [str(x).strip() for x in cf.model_names] != rows:
                bad.append((fmt, 'row order', [str(x).strip() for x in cf.model_names]))
                continue
            for r, n in enumerate(rows):
                i = names.index(n)
                wantf = np.sum(val[i][:, order] * R_, axis=1)
                wante = np.sqrt(np.sum((unc[i][:, order] * R_) ** 2, axis=1))
                if not np.allclose(cf.flux[r].value, wantf, rtol=1e-5, atol=1e-12):
                    bad.append((fmt, 'filt%d' % q, 'flux', n, cf.flux[r].value.tolist(), wantf.tolist()))
                if not np.allclose(cf.error[r].value, wante, rtol=1e-5, atol=1e-12):
                    bad.append((fmt, 'filt%d' % q, 'error', n, cf.error[r].value.tolist(), wante.tolist()))
        return bool(bad), {'mismatch': bad[:3]}
    finally:
        shutil.rmtree(d, ignore_errors=True)


def h_conv(nm, n_ap, n_wav, wav_desc, par_order, nfilt=1, listing='sorted'):
    def run(part):
        std_assumptions(part)
        part.bounds = {'models': nm, 'apertures': n_ap, 'wavelengths': n_wav, 'filters': nfilt,
                       'spectral_axis_stored': 'decreasing wavelength' if wav_desc else 'increasing wavelength',
                       'parameter_table_order': list(par_order), 'directory_listing': listing}
        part.assumptions |= {"Filter.rebin is cut: arbitrary non-negative responses per SED frequency (assume/guarantee with C06)",
                             "file-system / FITS container stubs (see C12); sqrt is the non-negative root",
                             "memmap / float32 agreement is outside the claim"}
        pk = pkgfix.Pkg()
        conv = pk.L.load('sedfitter.convolve.convolve')
        M = pk.L.load('sedfitter.models')
        ex = C.Explorer(query_timeout_ms=60000)
        cl = R.Claims(part, ex, ID)
        names = ['m_%s' % 'cab'[i] for i in range(nm)]
        resp = {}

        def resp_for(fname, nu_new):
            vals = symnp._obj(su.value_of(nu_new.to(U.Hz)))
            out = np.empty(len(vals), dtype=object)
            for i, v in enumerate(vals):
                key = (fname, C.real(v).t.get_id())
                if key not in resp:
                    r = C.fresh_real('R_%s_%d' % (fname, len(resp)))
                    C.ctx().assume(r >= 0)
                    resp[key] = (v, r)
                out[i] = resp[key][1]
            return out.view(symnp.SymArray)
        FM = stub_rebin(pk.L, resp_for)

        def body(c):
            resp.clear()
            pk.fs.files.clear()
            pk.fs.dirs.clear()
            if listing == 'reversed':
                pk.fs.listing_order = lambda fl: sorted(fl)[::-1]
            grid = pk.symbolic_grid(c, names, n_ap, n_wav, wav_desc=wav_desc)
            for dd, ver in (('P1', 1), ('P2', 2)):
                pk.conf(dd, ver)
            pk.parameters('P1', [names[i] for i in par_order])
            pk.parameters('P2', names)
            pk.write_seds('P1', grid)
            pk.write_cube('P2', grid)
            filters = []
            for k in range(nfilt):
                cw = C.fresh_real('cw%d' % k)
                c.assume(cw > 0)
                f = FM.Filter(name='filt%d' % k, central_wavelength=cw * U.micron, nu=np.array([1.0, 2.0]) * U.Hz, response=np.array([1.0, 1.0]))
                filters.append((f, cw))
            c.vars = dict(grid=grid, filters=filters)
            conv._convolve_model_dir_1('P1', [f for f, _ in filters])
            conv._convolve_model_dir_2('P2', [f for f, _ in filters], memmap=False)
            outs = {}
            for k in range(nfilt):
                outs[k] = (pk.io.cf.ConvolvedFluxes.read('P1/convolved/filt%d.fits' % k), pk.io.cf.ConvolvedFluxes.read('P2/convolved/filt%d.fits' % k))
            fl = [{'aperture_arcsec': 3.0, 'name': 'filt%d' % k} for k in range(nfilt)]
            m1 = M.Models._read_version_1('P1', fl, distance_range=None, remove_resolved=False)
            m2 = M.Models._read_version_2('P2', [dict(x) for x in fl], distance_range=None, remove_resolved=False, use_memmap=False)
            return outs, m1, m2

        with loader.Coverage() as cov:
            for c, out in ex.run(body):
                v = c.vars
                grid = v['grid']

                def inputs(m):
                    return {'names': names, 'par_order': list(par_order), 'w': mval(m, grid['w']), 'ap': mval(m, grid['ap']), 'nfilt': nfilt,
                            'flux': {n: mval(m, grid['flux'][n]) for n in names}, 'err': {n: mval(m, grid['err'][n]) for n in names}}
                if out[0] == 'exc':
                    cl.crash(c, out[1], 'convolve_model_dir', inputs, replay_conv)
                    continue
                outs, m1, m2 = out[1]
                w = list(grid['w'])
                for k, (c1, c2) in outs.items():
                    fname = 'filt%d' % k
                    # response attached to each stored wavelength column j (through its frequency)
                    Rj = []
                    for j in range(n_wav):
                        key = (fname, C.real(sedfix.nu_of(w[j])).t.get_id())
                        Rj.append(resp[key][1] if key in resp else None)
                    for fmt, cf, rows in (('per-file', c1, [names[i] for i in par_order]), ('cube', c2, names)):
                        got_rows = [str(x).strip() for x in cf.model_names]
                        ok = got_rows == rows and all(r is not None for r in Rj)
                        g = []
                        if ok:
                            fl, er = symnp._obj(cf.flux.to(U.mJy).value), symnp._obj(cf.error.to(U.mJy).value)
                            for r, nme in enumerate(rows):
                                for a in range(n_ap):
                                    sf, se = 0.0, 0.0
                                    for j in range(n_wav):
                                        sf = sf + grid['flux'][nme][a, j] * Rj[j]
                                        t = grid['err'][nme][a, j] * Rj[j]
                                        se = se + t * t
                                    g.append(C.same(fl[r, a], sf))
                                    e = C.real(er[r, a])
                                    g.append(z3.And(e.t >= 0, (e * e).t == C.real(se).t))
                            g.append(C.same(cf.central_wavelength.to(U.micron).value, v['filters'][k][1]))
                            g += [C.same(x, y) for x, y in zip(symnp._obj(cf.apertures.to(U.au).value), grid['ap'])]
                        cl.claim(c, conj(g) if ok else False,
                                 'V1-V3 %s format, %s: row X holds sum F_X R and sqrt(sum (E_X R)^2) per aperture; rows in %s order; FILTWAV/apertures carried'
                                 % (fmt, fname, 'parameter-table' if fmt == 'per-file' else 'cube'), inputs, replay_conv)
                # V4: fits made from either package see the same model fluxes under the same names
                f1 = {str(n): list(symnp._obj(su.value_of(m1.fluxes))[i]) for i, n in enumerate(m1.names)}
                f2 = {str(n): list(symnp._obj(su.value_of(m2.fluxes))[i]) for i, n in enumerate(m2.names)}
                ok = sorted(f1) == sorted(f2) == sorted(names)
                g = []
                if ok:
                    for n in names:
                        g += [C.same(x, y) for x, y in zip(f1[n], f2[n])]
                        g += [C.same(x, symnp._obj(outs[k][0].flux.value)[[str(q).strip() for q in outs[k][0].model_names].index(n), 0])
                              for k, x in enumerate(f1[n])]
                cl.claim(c, conj(g) if ok else False, 'V4 Models.read on the per-file and on the cube package give the same fluxes per model name',
                         inputs, replay_conv)
                if part.witnesses < 2:
                    cl.witness(c)
        R.finish_part(part, ex, cov)
    return run


def h_mismatch(part):
    """Cube format: a parameter table in another order than the cube is refused."""
    std_assumptions(part)
    part.bounds = {'models': 2, 'parameter_table_order': [1, 0]}
    pk = pkgfix.Pkg()
    conv = pk.L.load('sedfitter.convolve.convolve')
    ex = C.Explorer()
    cl = R.Claims(part, ex, ID)
    FM = pk.L.load('sedfitter.filter.filter')
    names = ['m_a', 'm_b']

    def body(c):
        pk.fs.files.clear()
        grid = pk.symbolic_grid(c, names, 1, 2, wav_desc=True)
        pk.conf('P2', 2)
        pk.parameters('P2', names[::-1])
        pk.write_cube('P2', grid)
        f = FM.Filter(name='filt', central_wavelength=1.0 * U.micron, nu=np.array([1.0, 2.0]) * U.Hz, response=np.array([1.0, 1.0]))
        conv._convolve_model_dir_2('P2', [f], memmap=False)
        return True
    for c, out in ex.run(body):
        cl.claim(c, out[0] == 'exc' and isinstance(out[1], ValueError) and 'do not match' in str(out[1]),
                 'V2 cube format: model names of cube and parameter file must match (refused otherwise)')
        cl.witness(c)
    R.finish_part(part, ex)


def configs(tier, seed):
    q = tier == 'quick'
    cfgs = []
    for wav_desc in (True, False):
        tag = 'desc' if wav_desc else 'asc'
        cfgs.append(Config('convolve nm=2 n_ap=2 n_wav=3 %s par_order=(1,0)' % tag, h_conv(2, 2, 3, wav_desc, (1, 0)), 3000))
        cfgs.append(Config('convolve nm=3 n_ap=1 n_wav=2 %s par_order=(2,0,1) listing reversed' % tag,
                           h_conv(3, 1, 2, wav_desc, (2, 0, 1), listing='reversed'), 3000))
    cfgs.append(Config('convolve nm=2 n_ap=1 n_wav=2 desc two filters par_order=(0,1)', h_conv(2, 1, 2, True, (0, 1), nfilt=2), 3000))
    cfgs.append(Config('convolve nm=2 n_ap=1 n_wav=2 desc two filters par_order=(1,0)', h_conv(2, 1, 2, True, (1, 0), nfilt=2), 3000))
    cfgs.append(Config('convolve nm=3 n_ap=1 n_wav=2 asc three filters par_order=(1,2,0)', h_conv(3, 1, 2, False, (1, 2, 0), nfilt=3), 3000))
    cfgs.append(Config('cube/parameter-table mismatch refused', h_mismatch, 600))
    if not q:
        for po in itertools.permutations(range(3)):
            cfgs.append(Config('convolve nm=3 n_ap=2 n_wav=3 desc par_order=%s' % (po,), h_conv(3, 2, 3, True, po), 6000))
        cfgs.append(Config('convolve nm=2 n_ap=2 n_wav=4 asc par_order=(1,0)', h_conv(2, 2, 4, False, (1, 0)), 6000))
    return cfgs


def replay(rec):
    return replay_conv(R.unjson_num(rec['inputs']))
