"""C20 -- source lines are parsed by the documented column layout or rejected.

The real Source.from_ascii / to_ascii / to_dict / from_dict / __getstate__ / __setstate__ and the setters run
on a line modelled as a list of k tokens; every token carries symbolic facts "parses as int / as float" and
symbolic values (any integer; any extended real):
  L1  k == 3(n+1), flags in {0,1,2,3,4,9}  =>  name, x, y, n flags, n (flux, error) pairs are the tokens at the
      documented positions
  L2  any other column count >= 3, a flag outside the set, or an unparsable token  =>  an exception
  L3  fewer than three columns  =>  EOFError (end of input)
  L4  to_ascii -> from_ascii keeps every value next to its column (values printed as injective sentinels;
      printed precision is outside the claim); to_dict/from_dict and the pickle state are lossless
"""
from __future__ import annotations

import numpy as np
import z3

from symx import core as C, symnp, loader, report as R
from .common import Config, mval, std_assumptions, conj

ID = 'C20'
ALLOWED = (0, 1, 2, 3, 4, 9)


class Token:
    """A whitespace-free column of the line with symbolic parse facts."""

    def __init__(self, name):
        self.name = name
        self.is_int = C.SymBool(z3.Bool(name + '.isint'))
        self.is_float = C.SymBool(z3.Bool(name + '.isfloat'))
        self.ival = C.SymInt(z3.Int(name + '.int'))
        self.fval = C.fresh_real(name + '.float', kinded=True)

    def _symx_token_int(self):
        if not bool(self.is_int):
            raise ValueError("invalid literal for int() with base 10: %r" % self.name)
        return self.ival

    def _symx_token_float(self):
        if not bool(self.is_float):
            raise ValueError("could not convert string to float: %r" % self.name)
        return self.fval


class Line:
    def __init__(self, cols):
        self.cols = cols

    def split(self):
        return list(self.cols)


def replay_parse(inp):
    ld = loader.real_loader()
    S = ld.load('sedfitter.source.source').Source
    line = ' '.join(inp['tokens'])
    k = len(inp['tokens'])
    n = (k - 3) // 3
    try:
        s = S.from_ascii(line)
    except EOFError:
        return (k >= 3), {'EOFError': True, 'columns': k}
    except Exception as e:  # noqa: BLE001
        return bool(inp['expect_ok']), {'raised': '%s: %s' % (type(e).__name__, e)}
    if not inp['expect_ok']:
        return True, {'accepted': line, 'valid': None if s.valid is None else s.valid.tolist()}
    toks = inp['tokens']
    ok = s.name == toks[0] and float(s.x) == float(toks[1]) and float(s.y) == float(toks[2])
    ok = ok and [int(v) for v in s.valid] == [int(t) for t in toks[3:3 + n]]
    for j in range(n):
        ok = ok and _feq(s.flux[j], float(toks[3 + n + 2 * j])) and _feq(s.error[j], float(toks[3 + n + 2 * j + 1]))
    return (not ok), {'parsed': {'valid': s.valid.tolist(), 'flux': s.flux.tolist(), 'error': s.error.tolist()}}


def _feq(a, b):
    return (a != a and b != b) or a == b


def tok_text(m, t, as_int):
    if isinstance(t, str):
        return t
    if as_int:
        if z3.is_true(m.eval(t.is_int.t, model_completion=True)):
            return str(C.model_value(m, t.ival))
        return 'x'
    if z3.is_true(m.eval(t.is_float.t, model_completion=True)):
        return repr(float(C.model_value(m, t.fval)))
    return 'x'


def h_parse(k):
    def run(part):
        std_assumptions(part)
        n = (k - 3) // 3 if k >= 3 else 0
        part.bounds = {'columns': k, 'filters_if_well_formed': n if k >= 3 and k % 3 == 0 else None,
                       'tokens': 'first is a name; every other token: arbitrary int-parse / float-parse facts and values'}
        part.assumptions |= {"str.split, int()/float() parsing of a column are modelled by per-token facts (parses or not, value)",
                             "numpy.array(list of str, dtype=int|float) converts each column or raises ValueError"}
        L = loader.Loader()
        S = L.load('sedfitter.source.source').Source
        ex = C.Explorer()
        cl = R.Claims(part, ex, ID)

        def body(c):
            toks = ['src_name'] + [Token('t%d' % i) for i in range(1, k)] if k >= 1 else []
            c.vars = toks
            return S.from_ascii(Line(toks))

        with loader.Coverage() as cov:
            for c, out in ex.run(body):
                toks = c.vars
                well = k >= 3 and k % 3 == 0

                def inputs(m, ok=None):
                    txt = []
                    for i, t in enumerate(toks):
                        txt.append(tok_text(m, t, as_int=(well and 3 <= i < 3 + n)))
                    return {'tokens': txt, 'expect_ok': ok}
                if k < 3:
                    good = out[0] == 'exc' and isinstance(out[1], EOFError)
                    cl.claim(c, good, 'L3 fewer than three columns ends the input (EOFError)', lambda m: inputs(m, False), replay_parse)
                    continue
                if not well:
                    cl.claim(c, out[0] == 'exc' and not isinstance(out[1], EOFError),
                             'L2 a column count that does not fit 3(n+1) is rejected', lambda m: inputs(m, False), replay_parse)
                    continue
                flags = toks[3:3 + n]
                parse_ok = [toks[1].is_float.t, toks[2].is_float.t] + [t.is_int.t for t in flags] + [t.is_float.t for t in toks[3 + n:]]
                flags_ok = [z3.Or([t.ival.t == a for a in ALLOWED]) for t in flags]
                valid_line = z3.And(parse_ok + flags_ok) if parse_ok + flags_ok else z3.BoolVal(True)
                if out[0] == 'exc':
                    # an exception is right exactly when the line is not a valid one
                    cl.claim(c, z3.Not(valid_line), 'L1 a well-formed line is accepted (raised %s)' % type(out[1]).__name__,
                             lambda m: inputs(m, True), replay_parse)
                    continue
                s = out[1]
                g = [valid_line]
                ok = s.name == 'src_name' and s.valid is not None and len(s.valid) == n and len(s.flux) == n and len(s.error) == n
                if ok:
                    g += [C.same(s.x, toks[1].fval), C.same(s.y, toks[2].fval)]
                    sv, sf, se = symnp._obj(s.valid), symnp._obj(s.flux), symnp._obj(s.error)
                    for j in range(n):
                        g.append(C.same(sv[j], flags[j].ival))
                        g.append(C.same(sf[j], toks[3 + n + 2 * j].fval))
                        g.append(C.same(se[j], toks[3 + n + 2 * j + 1].fval))
                cl.claim(c, conj(g) if ok else False, 'L1/L2 accepted lines are valid and every field is the token at its documented position',
                         lambda m: inputs(m, False), replay_parse)
                if part.witnesses < 2:
                    cl.witness(c)
        R.finish_part(part, ex, cov)
    return run


def h_roundtrip(n, name_len=8):
    NAME = ('source_7' + 'x' * 40)[:name_len]

    def run(part):
        std_assumptions(part)
        part.bounds = {'filters': n, 'name_length': name_len, 'values': 'any reals for x, y, fluxes, errors; every flag vector position symbolic over the allowed set is '
                       'covered by concrete flag vectors cycling through {0,1,2,3,4,9}'}
        part.assumptions.add("printed numbers are injective sentinels: which value lands in which column is decided, printed precision is not")
        L = loader.Loader()
        S = L.load('sedfitter.source.source').Source
        ex = C.Explorer()
        cl = R.Claims(part, ex, ID)
        flags = [ALLOWED[(i * 5 + 1) % 6] for i in range(n)]

        def body(c):
            s = S()
            s.name = NAME
            x, y = C.fresh_real('x'), C.fresh_real('y')
            s.x, s.y = x, y
            s.valid = np.array(flags, dtype=int)
            F, E = symnp.sym_array('F', n), symnp.sym_array('E', n)
            s.flux, s.error = F, E
            c.vars = (x, y, F, E)
            c.printing = True
            line = s.to_ascii()
            c.printing = False
            back = S.from_ascii(line)
            d = S.from_dict(s.to_dict())
            p = S.__new__(S)
            p.__setstate__(s.__getstate__())
            return s, back, d, p

        with loader.Coverage() as cov:
            for c, out in ex.run(body):
                if out[0] == 'exc':
                    cl.crash(c, out[1], 'to_ascii/from_ascii')
                    continue
                x, y, F, E = c.vars
                s, back, d, p = out[1]
                ok = back.name == NAME and [int(v) for v in back.valid] == flags and len(back.flux) == n and len(back.error) == n
                ok = ok and c.decode(back.x) is x and c.decode(back.y) is y
                for j in range(n):
                    ok = ok and c.decode(back.flux[j]) is symnp._plain(F)[j] and c.decode(back.error[j]) is symnp._plain(E)[j]
                cl.claim(c, bool(ok), 'L4 to_ascii -> from_ascii keeps every value next to its column (n=%d)' % n)
                for nm, o in (('dict', d), ('pickle state', p)):
                    ok = o.name == s.name and [int(v) for v in o.valid] == flags
                    g = [C.same(o.x, x), C.same(o.y, y)] + [C.same(a, b) for a, b in zip(symnp._obj(o.flux), F)] + \
                        [C.same(a, b) for a, b in zip(symnp._obj(o.error), E)]
                    cl.claim(c, conj(g) if ok else False, 'L4 %s round trip is lossless' % nm)
                cl.witness(c)
        R.finish_part(part, ex, cov)
    return run


def configs(tier, seed):
    nmax = 4 if tier == 'quick' else 12
    cfgs = []
    for k in range(0, 3 * nmax + 7):
        if tier == 'quick' and k > 3 * nmax + 3 and k % 3 == 0:
            continue
        cfgs.append(Config('parse k=%d columns' % k, h_parse(k), 1500))
    for n in ([0, 1, 3, 6] if tier == 'quick' else [0, 1, 2, 3, 4, 6, 9, 12]):
        cfgs.append(Config('round trips n=%d' % n, h_roundtrip(n), 600))
    for n, ln in ((1, 30), (2, 31), (0, 40), (3, 40)):
        cfgs.append(Config('round trips n=%d name of %d characters' % (n, ln), h_roundtrip(n, ln), 600))
    return cfgs


def replay(rec):
    return replay_parse(R.unjson_num(rec['inputs']))
