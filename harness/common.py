"""Shared helpers for the harnesses: specs written once for floats and symbolic values, model
extraction, translator validation, Source/Models construction."""
from __future__ import annotations

import math

import numpy as np
import z3

from symx import core as C
from symx import symnp, loader, report as R
from symx.core import ite, real
from symx.runner import Config  # noqa: F401


# ----------------------------------------------------------------------------
# model -> concrete python values

def mval(m, x):
    if m is None and isinstance(x, np.ndarray):
        return np.array(symnp._obj(x).tolist(), dtype=float).tolist()
    if isinstance(x, np.ndarray):
        if x.dtype == object:
            out = np.empty(x.shape, dtype=float)
            for pos in np.ndindex(*x.shape):
                out[pos] = float(C.model_value(m, symnp._plain(x)[pos]))
            return out.tolist()
        return x.tolist()
    if isinstance(x, (list, tuple)):
        return [mval(m, v) for v in x]
    if isinstance(x, dict):
        return {k: mval(m, v) for k, v in x.items()}
    if C.is_sym(x):
        return C.model_value(m, x)
    return x


def close(a, b, rtol=1e-6, atol=1e-9):
    a, b = float(a), float(b)
    if math.isnan(a) or math.isnan(b):
        return math.isnan(a) and math.isnan(b)
    if math.isinf(a) or math.isinf(b):
        return a == b
    return abs(a - b) <= atol + rtol * max(abs(a), abs(b))


def allclose(a, b, rtol=1e-6, atol=1e-9):
    a, b = np.asarray(a, dtype=float), np.asarray(b, dtype=float)
    if a.shape != b.shape:
        return False
    return all(close(x, y, rtol, atol) for x, y in zip(a.reshape(-1), b.reshape(-1)))


# ----------------------------------------------------------------------------
# specs that work on floats and on symbolic scalars alike

def smin(a, b):
    return C.s_min2(a, b)


def smax(a, b):
    return C.s_max2(a, b)


def sdiv(a, b):
    if not C.is_sym(a) and not C.is_sym(b):
        return a / b
    return real(a) / real(b)


def lin_at(x, y, i, t):
    """value at t of the line through (x[i],y[i]) and (x[i+1],y[i+1])"""
    return y[i] + (t - x[i]) * sdiv(y[i + 1] - y[i], x[i + 1] - x[i])


def pw_integral(x, y, lo, hi):
    """Exact integral over [lo, hi] (lo <= hi) of the piecewise-linear interpolant of (x ascending, y),
    taken as zero outside [x[0], x[-1]].

    Written with plain `if`: on symbolic values every comparison forks the exploration, so that on
    each path the specification is a straight-line polynomial term (much easier for the solver than
    nested if-then-else terms)."""
    total = 0.0
    for i in range(len(x) - 1):
        l = x[i]
        if lo > l:
            l = lo
        h = x[i + 1]
        if hi < h:
            h = hi
        if h > l:
            total = total + (h - l) * (lin_at(x, y, i, l) + lin_at(x, y, i, h)) * 0.5
    return total


def pw_integral_ite(x, y, lo, hi):
    """Same, as a single if-then-else term (no forking)."""
    total = 0.0
    for i in range(len(x) - 1):
        l = smax(lo, x[i])
        h = smin(hi, x[i + 1])
        contrib = (h - l) * (lin_at(x, y, i, l) + lin_at(x, y, i, h)) * 0.5
        total = total + ite(h > l, contrib, 0.0)
    return total


def pw_interp(x, y, t, left=None, right=None):
    """Linear interpolant of (x ascending, y) at t; outside: left/right (default: end values)."""
    n = len(x)
    left = y[0] if left is None else left
    right = y[n - 1] if right is None else right
    acc = right
    for i in range(n - 2, -1, -1):
        acc = ite(t <= x[i + 1], lin_at(x, y, i, t), acc)
    acc = ite(t < x[0], left, acc)
    acc = ite(t > x[n - 1], right, acc)
    return acc


def sym_eq(a, b):
    """z3 Bool: NaN-aware equality of two scalars."""
    return C.same(a, b)


def conj(terms):
    ts = [C.bterm(t) if not isinstance(t, z3.ExprRef) else t for t in terms]
    return z3.And(ts) if ts else z3.BoolVal(True)


def arr_same(a, b):
    """z3 Bool: element-wise NaN-aware identity of two arrays (concrete or symbolic)."""
    a = symnp._obj(a) if not isinstance(a, np.ndarray) or a.dtype != object else symnp._plain(a)
    b = symnp._obj(b) if not isinstance(b, np.ndarray) or b.dtype != object else symnp._plain(b)
    if a.shape != b.shape:
        return z3.BoolVal(False)
    return conj([C.same(x, y) for x, y in zip(a.reshape(-1), b.reshape(-1))])


# ----------------------------------------------------------------------------
# translator validation: evaluate the symbolic result under a model of the path and compare with
# the real code run on the same inputs.

def validate_path(part, ctx, sym_out, inputs_of, real_fn, label, rtol=1e-6, budget=None):
    """sym_out: (nested) symbolic outputs; inputs_of(model)->dict; real_fn(inputs)->(nested) floats."""
    if budget is not None and budget[0] <= 0:
        return
    r, m = ctx.reachable()
    if r != 'sat':
        return
    part.witnesses += 1
    if budget is not None:
        budget[0] -= 1
    try:
        expected = mval(m, sym_out)
        inp = R.unjson_num(R.jsonable(inputs_of(m)))
        actual = real_fn(inp)
    except ValueError:
        return  # algebraic number etc.
    except Exception as e:  # noqa: BLE001
        part.validation_failures.append("%s: real code raised %s: %s on %s" % (label, type(e).__name__, e, inp))
        return
    ok = _nested_close(expected, actual, rtol)
    if ok is None:
        return
    if ok:
        part.validated += 1
    else:
        part.validation_failures.append("%s: symbolic %s vs real %s on %s" % (label, expected, R.jsonable(actual), inp))


def _nested_close(a, b, rtol):
    if isinstance(a, (list, tuple)):
        b = b.tolist() if isinstance(b, np.ndarray) else b
        if not isinstance(b, (list, tuple)) or len(a) != len(b):
            return False
        rs = [_nested_close(x, y, rtol) for x, y in zip(a, b)]
        if any(r is False for r in rs):
            return False
        return True
    if isinstance(a, (str, bytes)) or a is None:
        return a == b
    try:
        return close(a, b, rtol, 1e-9 * (1 + abs(float(a))))
    except (TypeError, ValueError):
        return None


def std_assumptions(part):
    part.assumptions |= {
        "arithmetic over the reals (exact rationals for float literals); float64 rounding, overflow and float32 storage are outside the claim",
        "numpy element-wise arithmetic, broadcasting, reductions and indexing follow numpy's documented semantics (numpy's own code runs for shapes and indexing)",
        "sizes beyond the stated bounds are outside the claim",
    }
