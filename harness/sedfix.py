"""Fixture for the SED / cube / convolved-flux file harnesses (C07, C12, C15, C16): real classes of /repo
over the in-memory FITS container, with symbolic cell values."""
from __future__ import annotations

import numpy as np
import z3

from symx import core as C, symnp, loader, symunits as su, symio

U = su.module
UNITS = {
    'mJy': lambda: U.mJy,
    'Jy': lambda: U.Jy,
    'erg/cm2/s': lambda: U.erg / U.cm ** 2 / U.s,
    'erg/s': lambda: U.erg / U.s,
    'W/m2': lambda: U.W / U.m ** 2,
}


class IO:
    def __init__(self, **kw):
        self.L = symio.io_loader(**kw)
        self.fs = self.L.fs
        self.sed = self.L.load('sedfitter.sed.sed')
        self.cube = self.L.load('sedfitter.sed.cube')
        self.cf = self.L.load('sedfitter.convolved_fluxes.convolved_fluxes')
        self.helpers = self.L.load('sedfitter.sed.helpers')


def real_io():
    """Real classes, real astropy.io.fits (replay on temporary files)."""
    ld = loader.real_loader()
    ns = type('RealIO', (), {})()
    ns.L = ld
    ns.sed = ld.load('sedfitter.sed.sed')
    ns.cube = ld.load('sedfitter.sed.cube')
    ns.cf = ld.load('sedfitter.convolved_fluxes.convolved_fluxes')
    ns.helpers = ld.load('sedfitter.sed.helpers')
    return ns


_REAL = {}


def rio():
    if 'r' not in _REAL:
        _REAL['r'] = real_io()
    return _REAL['r']


def real_unit(name):
    import astropy.units as u
    return {'mJy': u.mJy, 'Jy': u.Jy, 'erg/cm2/s': u.erg / u.cm ** 2 / u.s, 'erg/s': u.erg / u.s, 'W/m2': u.W / u.m ** 2}[name]


def monotone_wavs(c, n, ascending, name='w'):
    w = symnp.sym_array(name, n)
    for i in range(n):
        c.assume(w[i] > 0)
    for i in range(n - 1):
        c.assume(w[i] < w[i + 1] if ascending else w[i] > w[i + 1])
    return w


def make_sed(io, c, n_ap, n_wav, ascending, unit, given='wav', with_ap=True, name='model_x', tag=''):
    s = io.sed.SED()
    s.name = name
    s.distance = 1.0 * U.kpc
    w = monotone_wavs(c, n_wav, ascending, 'w' + tag)
    if given == 'wav':
        s.wav = w * U.micron
    elif given == 'nu':
        s.nu = (w * U.micron).to(U.Hz, equivalencies=U.spectral())
    else:
        s.wav = w * U.micron
        s.nu = (w * U.micron).to(U.Hz, equivalencies=U.spectral())
    if with_ap:
        ap = symnp.sym_array('ap' + tag, n_ap)
        for i in range(n_ap):
            c.assume(ap[i] > 0)
        for i in range(n_ap - 1):
            c.assume(ap[i] < ap[i + 1])
        s.apertures = ap * U.au
    else:
        ap = None
    fl = symnp.sym_array('flux' + tag, (n_ap, n_wav))
    er = symnp.sym_array('err' + tag, (n_ap, n_wav))
    s.flux = fl * UNITS[unit]()
    s.error = er * UNITS[unit]()
    return s, dict(w=w, ap=ap, flux=fl, err=er)


C_MICRON_HZ = None


def nu_of(w_micron):
    """c / lambda with the same exact constants the unit shim uses."""
    q = (symnp.SymArray([w_micron]) * U.micron).to(U.Hz, equivalencies=U.spectral())
    return q.value[0]
