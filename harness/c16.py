"""C16 -- monochromatic convolution emits every in-range wavelength at any memory limit.

The real convolve_model_dir_monochromatic runs over a per-file package in the in-memory file system (SED files
written by the real SED.write, models.conf parsed by the real parfile.read), with symbolic fluxes, symbolic
decreasing wavelengths, symbolic window ends and a symbolic memory limit (the chunk size forks over 1..n_wav):
  M1  the files written are exactly MO(j+1) for the tabulated wavelengths w_j strictly inside the window
      (all of them by default)
  M2  each file holds, per model in parameter-table order and per aperture, the SED flux and error at w_j, and
      carries w_j as its central wavelength and the SED apertures
  M3  the returned table names MO(j+1) next to w_j for exactly those j
  (independence of the memory limit follows: M1-M3 do not mention it)
  M4  cube packages: a wavelength given instead of a filter name selects the cube slice at the nearest tabulated
      wavelength (real Models._read_version_2 + MonochromaticFluxes.from_sed_cube)
"""
from __future__ import annotations

import itertools
import os
import shutil
import tempfile

import numpy as np
import z3

from symx import core as C, symnp, loader, report as R, symunits as su, symio
from .common import Config, mval, close, std_assumptions, conj
from . import sedfix, pkgfix
from .sedfix import U

ID = 'C16'
GB = 1024. ** 3


def replay_mono(inp):
    """Concrete twin on a real package directory."""
    import astropy.units as u
    from astropy.table import Table
    ld = loader.real_loader()
    S = ld.load('sedfitter.sed.sed').SED
    mono = ld.load('sedfitter.convolve.monochromatic').convolve_model_dir_monochromatic
    CF = ld.load('sedfitter.convolved_fluxes.convolved_fluxes').ConvolvedFluxes
    d = tempfile.mkdtemp(prefix='c16-')
    try:
        os.mkdir(os.path.join(d, 'seds'))
        open(os.path.join(d, 'models.conf'), 'w').write("name = test\nlength_subdir = 0\naperture_dependent = no\nlogd_step = 0.02\n")
        names = inp['names']
        t = Table()
        t['MODEL_NAME'] = np.array([names[i] for i in inp['par_order']], dtype='S30')
        t.write(os.path.join(d, 'parameters.fits'))
        w = np.array(inp['w'], dtype=float)
        for n in names:
            s = S()
            s.name = n
            s.distance = 1 * u.kpc
            s.wav = w * u.micron
            s.apertures = np.array(inp['ap'], dtype=float) * u.au
            s.flux = np.array(inp['flux'][n], dtype=float) * u.mJy
            s.error = np.array(inp['err'][n], dtype=float) * u.mJy
            s.write(os.path.join(d, 'seds', n + '_sed.fits'))
        kw = {}
        if inp.get('wav_min') is not None:
            kw['wav_min'] = inp['wav_min'] * u.micron
        if inp.get('wav_max') is not None:
            kw['wav_max'] = inp['wav_max'] * u.micron
        try:
            mono(d, max_ram=inp['max_ram'], **kw)
        except Exception as e:  # noqa: BLE001
            return True, {'raised': '%s: %s' % (type(e).__name__, e)}
        lo = inp.get('wav_min') if inp.get('wav_min') is not None else -np.inf
        hi = inp.get('wav_max') if inp.get('wav_max') is not None else np.inf
        # the code works on the SED read with order='nu': decreasing wavelength
        wd = np.sort(w)[::-1]
        src = {float(x): i for i, x in enumerate(w)}
        want = ['MO%03d.fits' % (j + 1) for j in range(len(wd)) if lo < wd[j] < hi]
        have = sorted(os.listdir(os.path.join(d, 'convolved'))) if os.path.exists(os.path.join(d, 'convolved')) else []
        if sorted(want) != have:
            return True, {'files_written': have, 'expected': sorted(want)}
        for j in range(len(wd)):
            if not (lo < wd[j] < hi):
                continue
            cf = CF.read(os.path.join(d, 'convolved', 'MO%03d.fits' % (j + 1)))
            col = src[float(wd[j])]
            cw = cf.central_wavelength.to(u.micron).value if cf.central_wavelength is not None else None
            if cw is None or not np.isclose(float(cw), float(wd[j]), rtol=1e-9):
                return True, {'file': 'MO%03d' % (j + 1), 'FILTWAV': None if cw is None else float(cw), 'wavelength_of_the_slice_it_holds': float(wd[j])}
            if not np.allclose(cf.apertures.to(u.au).value, np.array(inp['ap'], dtype=float), rtol=1e-9):
                return True, {'file': 'MO%03d' % (j + 1), 'apertures': cf.apertures.to(u.au).value.tolist(), 'expected': inp['ap']}
            for r, nme in enumerate(names[i] for i in inp['par_order']):
                wante = np.array(inp['err'][nme], dtype=float)[:, col]
                if not np.allclose(cf.error[r].value, wante, rtol=1e-6):
                    return True, {'file': 'MO%03d' % (j + 1), 'row': r, 'error_got': cf.error[r].value.tolist(), 'error_want': wante.tolist()}
                wantf = np.array(inp['flux'][nme], dtype=float)[:, col]
                if str(cf.model_names[r]).strip() != nme or not np.allclose(cf.flux[r].value, wantf, rtol=1e-6):
                    return True, {'file': 'MO%03d' % (j + 1), 'row': r, 'got': cf.flux[r].value.tolist(), 'want': wantf.tolist()}
        return False, {}
    finally:
        shutil.rmtree(d, ignore_errors=True)


def h_mono(n_wav, n_ap, nm, window, par_order):
    def run(part):
        std_assumptions(part)
        part.bounds = {'wavelengths': n_wav, 'apertures': n_ap, 'models': nm, 'window': window,
                       'memory_limit': 'symbolic: every chunk size 1..%d' % n_wav, 'parameter_table_order': list(par_order)}
        part.assumptions |= {"file-system and FITS container stubs (see C12); glob/sorted listing as in Python",
                             "window ends different from every tabulated wavelength; the window holds at least one tabulated wavelength (an empty window is unspecified)"}
        pk = pkgfix.Pkg()
        mono = pk.L.load('sedfitter.convolve.monochromatic')
        ex = C.Explorer(query_timeout_ms=60000)
        cl = R.Claims(part, ex, ID)
        names = ['m_%s' % 'abc'[i] for i in range(nm)]

        def body(c):
            pk.fs.files.clear()
            pk.fs.dirs.clear()
            grid = pk.symbolic_grid(c, names, n_ap, n_wav, wav_desc=True)
            pk.conf('PKG', 1)
            pk.parameters('PKG', [names[i] for i in par_order])
            pk.write_seds('PKG', grid)
            ram = C.fresh_real('max_ram')
            per = 4. * 2. * nm * n_ap
            c.assume(ram * GB >= per)                      # chunk size >= 1
            c.assume(ram * GB < per * (n_wav + 2))
            kw = {}
            lo = hi = None
            if window in ('both', 'min'):
                lo = C.fresh_real('wav_min')
                c.assume(lo > 0)
                for j in range(n_wav):
                    c.assume(lo != grid['w'][j])
                kw['wav_min'] = lo * U.micron
            if window in ('both', 'max'):
                hi = C.fresh_real('wav_max')
                c.assume(hi > 0)
                for j in range(n_wav):
                    c.assume(hi != grid['w'][j])
                kw['wav_max'] = hi * U.micron
            if lo is not None and hi is not None:
                c.assume(lo < hi)
            if lo is not None or hi is not None:
                # the property speaks of windows holding at least one tabulated wavelength (an empty window is unspecified)
                ins = []
                for j in range(n_wav):
                    t = z3.BoolVal(True)
                    if lo is not None:
                        t = z3.And(t, C.bterm(grid['w'][j] > lo))
                    if hi is not None:
                        t = z3.And(t, C.bterm(grid['w'][j] < hi))
                    ins.append(t)
                c.assume(C.mk_bool(z3.Or(ins)))
            c.vars = dict(grid=grid, ram=ram, lo=lo, hi=hi)
            return mono.convolve_model_dir_monochromatic('PKG', max_ram=ram, **kw)

        with loader.Coverage() as cov:
            for c, out in ex.run(body):
                v = c.vars
                grid = v['grid']

                def inputs(m):
                    return {'names': names, 'par_order': list(par_order), 'w': mval(m, grid['w']), 'ap': mval(m, grid['ap']),
                            'flux': {n: mval(m, grid['flux'][n]) for n in names}, 'err': {n: mval(m, grid['err'][n]) for n in names},
                            'max_ram': mval(m, v['ram']), 'wav_min': None if v['lo'] is None else mval(m, v['lo']),
                            'wav_max': None if v['hi'] is None else mval(m, v['hi'])}
                if out[0] == 'exc':
                    cl.crash(c, out[1], 'convolve_model_dir_monochromatic', inputs, replay_mono)
                    continue
                table = out[1]
                written = sorted(p.split('/')[-1] for p in pk.fs.files if p.startswith('PKG/convolved/'))
                w = list(grid['w'])      # stored decreasing; the code reads with order='nu' -> same order
                g = []
                for j in range(n_wav):
                    inside = z3.BoolVal(True)
                    if v['lo'] is not None:
                        inside = z3.And(inside, C.bterm(w[j] > v['lo']))
                    if v['hi'] is not None:
                        inside = z3.And(inside, C.bterm(w[j] < v['hi']))
                    g.append(inside if ('MO%03d.fits' % (j + 1)) in written else z3.Not(inside))
                extra = [f for f in written if f not in ['MO%03d.fits' % (j + 1) for j in range(n_wav)]]
                cl.claim(c, conj(g) if not extra else False, 'M1 files written == wavelengths strictly inside the window (%s)' % written,
                         inputs, replay_mono)
                g = []
                for j in range(n_wav):
                    fn = 'MO%03d.fits' % (j + 1)
                    if fn not in written:
                        continue
                    cf = pk.io.cf.ConvolvedFluxes.read('PKG/convolved/' + fn)
                    rows = [str(x).strip() for x in cf.model_names]
                    if rows != [names[i] for i in par_order]:
                        g.append(z3.BoolVal(False))
                        continue
                    g.append(C.same(cf.central_wavelength.to(U.micron).value, w[j]))
                    g += [C.same(a, b) for a, b in zip(symnp._obj(cf.apertures.to(U.au).value), grid['ap'])]
                    fl, er = symnp._obj(cf.flux.to(U.mJy).value), symnp._obj(cf.error.to(U.mJy).value)
                    for r, nme in enumerate(rows):
                        for a in range(n_ap):
                            g.append(C.same(fl[r, a], grid['flux'][nme][a, j]))
                            g.append(C.same(er[r, a], grid['err'][nme][a, j]))
                cl.claim(c, conj(g), 'M2 each file holds flux/error at its wavelength, per model in parameter-table order, per aperture',
                         inputs, replay_mono)
                tw = symnp._obj(su.value_of(table['wav']))
                tf = [x.decode() if isinstance(x, bytes) else str(x) for x in table['filter']]
                g = [z3.BoolVal(len(tf) == n_wav)]
                for j in range(n_wav):
                    fn = 'MO%03d' % (j + 1)
                    g.append(z3.BoolVal(tf[j] == (fn if fn + '.fits' in written else '')))
                    g.append(C.same(tw[j], w[j]))
                cl.claim(c, conj(g), 'M3 the returned table names the files next to their wavelengths', inputs, replay_mono)
                if part.witnesses < 2:
                    cl.witness(c)
        R.finish_part(part, ex, cov)
    return run


def replay_slice(inp):
    """Concrete twin of M4: a real cube package on disk read with a wavelength filter."""
    import astropy.units as u
    ld = loader.real_loader()
    CU = ld.load('sedfitter.sed.cube').SEDCube
    M = ld.load('sedfitter.models').Models
    d = tempfile.mkdtemp(prefix='c16s-')
    try:
        open(os.path.join(d, 'models.conf'), 'w').write("name = t\nlength_subdir = 0\naperture_dependent = no\nlogd_step = 0.02\nversion = 2\n")
        names = inp['names']
        w = np.array(inp['w'], dtype=float)
        val = np.array([inp['flux'][n] for n in names], dtype=float)
        cu = CU()
        cu.names, cu.distance = names, 1 * u.kpc
        cu.wav = w * u.micron
        cu.apertures = np.array(inp['ap'], dtype=float) * u.au
        cu.val, cu.unc = val * u.mJy, 0.1 * np.abs(val) * u.mJy
        cu.write(os.path.join(d, 'flux.fits'))
        try:
            m = M.read(d, [{'aperture_arcsec': 3.0, 'wav': inp['lam'] * u.micron}], distance_range=None, use_memmap=False)
        except Exception as e:  # noqa: BLE001
            return True, {'raised': '%s: %s' % (type(e).__name__, e)}
        dist = np.abs(w - inp['lam'])
        best = [j for j in range(len(w)) if dist[j] <= dist.min() * (1 + 1e-12)]
        got = np.asarray(m.fluxes[:, 0].value, dtype=float)
        ok = any(np.allclose(got, val[:, 0, j], rtol=1e-6, atol=0) for j in best)
        return (not ok), {'requested': inp['lam'], 'tabulated': w.tolist(), 'fluxes_read': got.tolist(),
                          'fluxes_at_nearest': val[:, 0, best[0]].tolist()}
    finally:
        shutil.rmtree(d, ignore_errors=True)


def h_cube_slice(n_wav, n_ap, nm, concrete_w=None):
    def run(part):
        std_assumptions(part)
        part.bounds = {'cube_wavelengths': n_wav, 'apertures': n_ap, 'models': nm, 'requested_wavelength': 'any positive, not equidistant from two nodes'}
        pk = pkgfix.Pkg()
        M = pk.L.load('sedfitter.models')
        ex = C.Explorer(query_timeout_ms=60000)
        cl = R.Claims(part, ex, ID)
        names = ['m_%s' % 'abc'[i] for i in range(nm)]

        def body(c):
            pk.fs.files.clear()
            grid = pk.symbolic_grid(c, names, n_ap, n_wav, wav_desc=False)
            lam = C.fresh_real('lam')
            c.assume(lam > 0)
            if concrete_w is not None:
                # tabulated wavelengths concrete; facts about log10(lam) at the nodes and at the geometric means, so that a
                # selection made in log space can be told apart from the nearest wavelength (all true of log10)
                grid['w'] = symnp.SymArray(list(concrete_w))
                L = C.real(C.s_log10(lam))
                pts = list(concrete_w) + [float(np.sqrt(a * b)) for a, b in zip(concrete_w[:-1], concrete_w[1:])]
                for p_ in pts:
                    lp = C.rv(float(np.log10(p_)))
                    c.facts.append(z3.And((lam.t < C.rv(p_)) == (L.t < lp), (lam.t == C.rv(p_)) == (L.t == lp)))
            pk.conf('CUBE', 2)
            pk.write_cube('CUBE', grid)
            filters = [{'aperture_arcsec': 3.0, 'wav': lam * U.micron}]
            c.vars = (grid, lam)
            return M.Models._read_version_2('CUBE', filters, distance_range=None, remove_resolved=False, use_memmap=False)

        with loader.Coverage() as cov:
            for c, out in ex.run(body):
                grid, lam = c.vars
                inputs = lambda m: {'names': names, 'w': mval(m, grid['w']), 'ap': mval(m, grid['ap']), 'lam': mval(m, lam),
                                    'flux': {n: mval(m, grid['flux'][n]) for n in names}}
                if out[0] == 'exc':
                    cl.crash(c, out[1], 'Models.read (cube, wavelength filter)', inputs, replay_slice)
                    continue
                m = out[1]
                fl = symnp._obj(su.value_of(m.fluxes))
                w = list(grid['w'])
                ok = fl.shape == (nm, 1) and [str(x) for x in m.names] == names
                alts = []
                if ok:
                    for j in range(n_wav):
                        d = abs(w[j] - lam)
                        nearest = [C.bterm(d <= abs(w[i] - lam)) for i in range(n_wav)]
                        vals = [C.same(fl[mm, 0], grid['flux'][names[mm]][0, j]) for mm in range(nm)]
                        alts.append(z3.And(nearest + vals))
                cl.claim(c, z3.And(z3.Or(alts), C.same(m.wavelengths.to(U.micron).value[0], lam)) if ok else False,
                         'M4 a wavelength filter selects the cube slice at the nearest tabulated wavelength (smallest aperture column)',
                         inputs, replay_slice)
                if part.witnesses < 2:
                    cl.witness(c)
        R.finish_part(part, ex, cov)
    return run


def configs(tier, seed):
    q = tier == 'quick'
    cfgs = []
    for n_wav in ((2, 3, 4) if q else (2, 3, 4, 5, 6, 7, 9)):
        cfgs.append(Config('mono n_wav=%d default window nm=2 n_ap=%d' % (n_wav, 1 + n_wav % 2), h_mono(n_wav, 1 + n_wav % 2, 2, 'none', (1, 0)), 3000))
    cfgs.append(Config('mono n_wav=3 window [min,max] nm=1 n_ap=1', h_mono(3, 1, 1, 'both', (0,)), 3000))
    cfgs.append(Config('mono n_wav=3 window min only nm=2 n_ap=2', h_mono(3, 2, 2, 'min', (0, 1)), 3000))
    cfgs.append(Config('mono n_wav=4 window max only nm=1 n_ap=1', h_mono(4, 1, 1, 'max', (0,)), 3000))
    cfgs.append(Config('mono n_wav=4 window min only nm=1 n_ap=1', h_mono(4, 1, 1, 'min', (0,)), 3000))
    cfgs.append(Config('mono n_wav=4 window [min,max] nm=1 n_ap=2', h_mono(4, 2, 1, 'both', (0,)), 3000))
    if not q:
        cfgs.append(Config('mono n_wav=4 window [min,max] nm=2 n_ap=1', h_mono(4, 1, 2, 'both', (1, 0)), 6000))
        cfgs.append(Config('mono n_wav=5 window [min,max] nm=1 n_ap=1', h_mono(5, 1, 1, 'both', (0,)), 6000))
    cfgs.append(Config('cube slice n_wav=3 n_ap=1 nm=2', h_cube_slice(3, 1, 2), 1500))
    cfgs.append(Config('cube slice n_wav=2 n_ap=2 nm=1', h_cube_slice(2, 2, 1), 1500))
    cfgs.append(Config('cube slice tabulated wavelengths 1,2,4,8 micron nm=1', h_cube_slice(4, 1, 1, concrete_w=(1.0, 2.0, 4.0, 8.0)), 1500))
    return cfgs


def replay(rec):
    return replay_mono(R.unjson_num(rec['inputs']))
