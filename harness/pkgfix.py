"""Fixture: model packages (per-file and cube format) in the in-memory file system, built with the real
SED.write / SEDCube.write of /repo, with symbolic fluxes and wavelengths (C07, C08, C16, C17)."""
from __future__ import annotations

import numpy as np
import z3

from symx import core as C, symnp, loader, symunits as su, symio
from . import sedfix
from .sedfix import U


class Pkg:
    def __init__(self, **kw):
        self.io = sedfix.IO(**kw)
        self.L = self.io.L
        self.fs = self.io.fs

    def conf(self, model_dir, version=1, aperture_dependent=False, logd_step=0.02):
        txt = "name = test models\nlength_subdir = 0\naperture_dependent = %s\nlogd_step = %s\n" % ('yes' if aperture_dependent else 'no', logd_step)
        if version == 2:
            txt += "version = 2\n"
        self.fs.files[self.fs.norm(model_dir + '/models.conf')] = txt

    def parameters(self, model_dir, names_in_order, extra=None):
        t = symio.Table()
        t['MODEL_NAME'] = np.array(list(names_in_order), dtype='S30')
        for k, v in (extra or {}).items():
            t[k] = v
        self.fs.files[self.fs.norm(model_dir + '/parameters.fits')] = symio.HDUList([symio.PrimaryHDU(), symio.BinTableHDU(t)])

    def symbolic_grid(self, c, names, n_ap, n_wav, wav_desc=True, tag=''):
        """Common symbolic content: wavelengths (micron), apertures (AU), flux / error per model (mJy)."""
        w = sedfix.monotone_wavs(c, n_wav, not wav_desc, 'w' + tag)
        ap = symnp.sym_array('ap' + tag, n_ap)
        for i in range(n_ap):
            c.assume(ap[i] > 0)
        for i in range(n_ap - 1):
            c.assume(ap[i] < ap[i + 1])
        flux = {n: symnp.sym_array('F_%s%s' % (n, tag), (n_ap, n_wav)) for n in names}
        err = {n: symnp.sym_array('E_%s%s' % (n, tag), (n_ap, n_wav)) for n in names}
        return dict(w=w, ap=ap, flux=flux, err=err, names=list(names))

    def write_seds(self, model_dir, grid):
        """Per-file package: seds/<name>_sed.fits through the real SED.write."""
        for n in grid['names']:
            s = self.io.sed.SED()
            s.name = n
            s.distance = 1.0 * U.kpc
            s.wav = grid['w'] * U.micron
            s.apertures = grid['ap'] * U.au
            s.flux = grid['flux'][n] * U.mJy
            s.error = grid['err'][n] * U.mJy
            s.write(model_dir + '/seds/%s_sed.fits' % n)

    def write_cube(self, model_dir, grid, with_unc=True):
        cu = self.io.cube.SEDCube()
        cu.names = grid['names']
        cu.distance = 1.0 * U.kpc
        cu.wav = grid['w'] * U.micron
        cu.apertures = grid['ap'] * U.au
        n_ap, n_wav = grid['flux'][grid['names'][0]].shape
        val = np.empty((len(grid['names']), n_ap, n_wav), dtype=object)
        unc = np.empty_like(val)
        for i, n in enumerate(grid['names']):
            val[i] = symnp._plain(grid['flux'][n])
            unc[i] = symnp._plain(grid['err'][n])
        cu.val = val.view(symnp.SymArray) * U.mJy
        if with_unc:
            cu.unc = unc.view(symnp.SymArray) * U.mJy
        cu.write(model_dir + '/flux.fits')
        return cu
