"""C05 -- selection tuples keep exactly the fits the syntax page promises.

The real FitInfo.keep (and Source.n_data) runs on a ranked result whose chi^2 entries are extended reals
(finite >= 0, +inf, NaN; non-decreasing, NaN last), all other per-fit arrays symbolic.  Decided per path:
  K1  fit i is kept  <=>  criterion_i < v   (threshold different from every attained value), hence the
      kept set is a prefix of the ranking;  ('A',.) keeps all;  ('N', n) keeps min(n, total)
  K2  every per-fit array is cut to the same prefix (element identity)
  K3  keep(s2) after keep(s1) == keep(s2) alone when s1 is the same selector or a looser one of the same
      form (or 'A')
"""
from __future__ import annotations

import copy

import numpy as np
import z3

from symx import core as C, symnp, loader, report as R
from .common import Config, mval, std_assumptions, conj
from . import fitfix

ID = 'C05'
FORMS = ('A', 'N', 'C', 'D', 'E', 'F')


def ranked_chi2(c, n):
    chi = symnp.sym_array('chi2', n, kinded=True)
    raw = symnp._plain(chi)
    for i in range(n):
        x = raw[i]
        c.assume(C.mk_bool(x.k != C.NINF))
        c.assume(C.mk_bool(z3.Implies(x.k == C.FIN, x.t >= 0)))
        if i + 1 < n:
            y = raw[i + 1]
            c.assume(C.mk_bool(z3.Or(y.is_nan(), z3.And(z3.Not(x.is_nan()), z3.Or(x._lt(y), x._eq(y))))))
    return chi


def make_info(fx, c, n, flags, with_fluxes, nf=2):
    info = fx.fit_info.FitInfo()
    F = np.ones(len(flags))
    info.source = fx.source(flags, F, F * 0.1)
    info.chi2 = ranked_chi2(c, n)
    info.av = symnp.sym_array('av', n)
    info.sc = symnp.sym_array('sc', n)
    info.model_name = np.array(['m%d' % i for i in range(n)], dtype='U10')
    info.model_id = np.arange(n)[::-1].copy()
    info.model_fluxes = symnp.sym_array('mf', (n, nf)) if with_fluxes else None
    return info


def snapshot(info):
    return dict(chi2=list(symnp._plain(info.chi2)) if isinstance(info.chi2, np.ndarray) else list(info.chi2),
                av=list(symnp._obj(info.av)), sc=list(symnp._obj(info.sc)),
                name=[str(x) for x in info.model_name], mid=[int(x) for x in info.model_id],
                mf=None if info.model_fluxes is None else [list(r) for r in symnp._obj(info.model_fluxes)])


def criterion(form, chi, i, n_data):
    x = C.real(chi[i])
    if form == 'C':
        return x
    if form == 'D':
        return x - C.real(chi[0])
    if form == 'E':
        return x / n_data
    if form == 'F':
        return (x - C.real(chi[0])) / n_data


def clone(info, fx):
    j = fx.fit_info.FitInfo()
    j.source = info.source
    for a in ('chi2', 'av', 'sc', 'model_name', 'model_id', 'model_fluxes'):
        v = getattr(info, a)
        setattr(j, a, None if v is None else v.copy())
    return j


def real_keep(inp, selectors):
    r = fitfix.real()
    info = r.fit_info.FitInfo()
    info.source = fitfix.real_source(inp['flags'], [1.0] * len(inp['flags']), [0.1] * len(inp['flags']))
    n = len(inp['chi2'])
    info.chi2 = np.array(inp['chi2'], dtype=float)
    info.av = np.arange(n, dtype=float)
    info.sc = np.arange(n, dtype=float) * 10
    info.model_name = np.array(['m%d' % i for i in range(n)], dtype='U10')
    info.model_id = np.arange(n)[::-1].copy()
    info.model_fluxes = np.arange(2 * n, dtype=float).reshape(n, 2) if inp.get('with_fluxes') else None
    for s in selectors:
        info.keep(tuple(s))
    return info


def replay_keep(inp):
    """Concrete twin: K1/K2 on the real FitInfo.keep."""
    form, v = inp['form'], inp['v']
    chi = np.array(inp['chi2'], dtype=float)
    n = len(chi)
    nd = sum(1 for f in inp['flags'] if f in (1, 4))
    try:
        info = real_keep(inp, [(form, v)])
    except Exception as e:  # noqa: BLE001
        return True, {'raised': '%s: %s' % (type(e).__name__, e)}
    with np.errstate(all='ignore'):
        if form == 'A':
            want = [True] * n
        elif form == 'N':
            want = [i < min(int(v), n) for i in range(n)]
        else:
            crit = {'C': chi, 'D': chi - chi[0] if n else chi, 'E': chi / nd, 'F': (chi - chi[0]) / nd if n else chi}[form]
            want = [bool(x < v) for x in crit]
    kept = len(info.chi2)
    got = [i < kept for i in range(n)]
    bad = got != want
    if not bad:
        bad = not (len(info.av) == len(info.sc) == len(info.model_name) == len(info.model_id) == kept and
                   list(info.av) == list(range(kept)) and [str(x) for x in info.model_name] == ['m%d' % i for i in range(kept)])
        if inp.get('with_fluxes') and not bad:
            bad = len(info.model_fluxes) != kept
    if 'second' in inp and not bad:
        a = real_keep(inp, [(form, v), tuple(inp['second'])])
        b = real_keep(inp, [tuple(inp['second'])])
        bad = len(a.chi2) != len(b.chi2)
        return bad, {'twice': len(a.chi2), 'once': len(b.chi2)}
    return bad, {'kept': kept, 'expected_kept_mask': want}


def h_keep(n, form, flags, with_fluxes):
    nd = sum(1 for f in flags if f in (1, 4))

    def run(part):
        std_assumptions(part)
        part.bounds = {'fits': n, 'form': form, 'n_data': nd, 'model_fluxes': with_fluxes,
                       'chi2': 'extended reals: finite>=0 | +inf | NaN, ranked (NaN last)',
                       'threshold': 'any real different from every attained criterion value; N: 0..n+1'}
        part.assumptions.add("IEEE special values are modelled by kinds (inf-inf=nan, comparisons with nan false); rounding is not modelled")
        fx = fitfix.Fit(cuts=False)
        ex = C.Explorer()
        cl = R.Claims(part, ex, ID)

        def body(c):
            info = make_info(fx, c, n, flags, with_fluxes)
            before = snapshot(info)
            if form == 'N':
                v = C.SymInt(z3.Int('nsel'))
                c.assume(v >= 0)
                c.assume(v <= n + 1)
            else:
                v = C.fresh_real('v')
                if form != 'A':
                    for i in range(n):
                        cr = criterion(form, before['chi2'], i, nd)
                        c.assume(C.mk_bool(z3.Not(cr._eq(v))))
            c.vars = (before, v)
            info.keep((form, v))
            return info

        with loader.Coverage() as cov:
            for c, out in ex.run(body):
                before, v = c.vars
                inputs = lambda m: {'chi2': mval(m, before['chi2']), 'form': form, 'v': mval(m, v), 'flags': list(flags),
                                    'with_fluxes': with_fluxes}
                if out[0] == 'exc':
                    cl.crash(c, out[1], 'keep', inputs, replay_keep)
                    continue
                info = out[1]
                kept = len(info.chi2)
                goals = []
                for i in range(n):
                    if form == 'A':
                        want = z3.BoolVal(True)
                    elif form == 'N':
                        want = C.bterm(v > i)
                    else:
                        want = criterion(form, before['chi2'], i, nd)._lt(C.real(v))
                    goals.append(want if i < kept else z3.Not(want))
                cl.claim(c, conj(goals), 'K1 kept set == {i : criterion_i < v} (form %s, n=%d)' % (form, n), inputs, replay_keep)
                after = snapshot(info)
                same = all(len(after[k]) == kept for k in ('chi2', 'av', 'sc', 'name', 'mid')) and \
                    after['name'] == before['name'][:kept] and after['mid'] == before['mid'][:kept] and \
                    (after['mf'] is None) == (before['mf'] is None) and (after['mf'] is None or len(after['mf']) == kept)
                terms = []
                if same:
                    for k in ('chi2', 'av', 'sc'):
                        terms += [C.same(a, b) for a, b in zip(after[k], before[k][:kept])]
                    if after['mf'] is not None:
                        for ra, rb in zip(after['mf'], before['mf'][:kept]):
                            terms += [C.same(a, b) for a, b in zip(ra, rb)]
                cl.claim(c, conj(terms) if same else False, 'K2 all per-fit arrays cut to the same prefix', inputs, replay_keep)
                if part.witnesses < 2:
                    cl.witness(c)
        R.finish_part(part, ex, cov)
    return run


def h_twice(n, form1, form2, flags):
    nd = sum(1 for f in flags if f in (1, 4))

    def run(part):
        std_assumptions(part)
        part.bounds = {'fits': n, 'first': form1, 'second': form2, 'n_data': nd}
        fx = fitfix.Fit(cuts=False)
        ex = C.Explorer()
        cl = R.Claims(part, ex, ID)

        def mkv(c, form, tag, before):
            if form == 'N':
                v = C.SymInt(z3.Int(tag))
                c.assume(v >= 0)
                c.assume(v <= n + 1)
                return v
            v = C.fresh_real(tag)
            if form != 'A':
                for i in range(n):
                    c.assume(C.mk_bool(z3.Not(criterion(form, before['chi2'], i, nd)._eq(v))))
            return v

        def body(c):
            info = make_info(fx, c, n, flags, False)
            before = snapshot(info)
            v1 = mkv(c, form1, 'v1', before)
            v2 = mkv(c, form2, 'v2', before)
            if form1 != 'A':
                c.assume(v1 >= v2)          # same form, looser (or equal) first
            once = clone(info, fx)
            info.keep((form1, v1))
            info.keep((form2, v2))
            once.keep((form2, v2))
            c.vars = (before, v1, v2)
            return info, once

        with loader.Coverage() as cov:
            for c, out in ex.run(body):
                before, v1, v2 = c.vars
                inputs = lambda m: {'chi2': mval(m, before['chi2']), 'form': form1, 'v': mval(m, v1),
                                    'second': [form2, mval(m, v2)], 'flags': list(flags), 'with_fluxes': False}
                if out[0] == 'exc':
                    cl.crash(c, out[1], 'keep twice', inputs, replay_keep)
                    continue
                a, b = out[1]
                sa, sb = snapshot(a), snapshot(b)
                ok = len(sa['chi2']) == len(sb['chi2']) and sa['name'] == sb['name'] and sa['mid'] == sb['mid']
                terms = []
                if ok:
                    for k in ('chi2', 'av', 'sc'):
                        terms += [C.same(x, y) for x, y in zip(sa[k], sb[k])]
                cl.claim(c, conj(terms) if ok else False, 'K3 keep(%s) after keep(%s, looser) == keep(%s) alone' % (form2, form1, form2),
                         inputs, replay_keep)
                if part.witnesses < 2:
                    cl.witness(c)
        R.finish_part(part, ex, cov)
    return run


def configs(tier, seed):
    cfgs = []
    nmax = 4 if tier == 'quick' else 7
    flagsets = [(1, 4, 1), (1, 2, 0), (1, 9, 4, 9)] if tier == 'quick' else [(1, 4, 1), (1, 2, 0), (4, 4, 9, 3), (1, 1, 4, 4, 1)]
    for n in range(0, nmax + 1):
        for form in FORMS:
            for fl in (flagsets if form in 'EF' else flagsets[:1]):
                cfgs.append(Config('keep n=%d form=%s n_data=%d' % (n, form, sum(1 for f in fl if f in (1, 4))),
                                   h_keep(n, form, fl, with_fluxes=(n % 2 == 0)), 900))
    for n in range(1, (3 if tier == 'quick' else 5) + 1):
        for form in ('N', 'C', 'D', 'E', 'F'):
            cfgs.append(Config('twice n=%d %s then %s' % (n, form, form), h_twice(n, form, form, flagsets[0]), 900))
        for form in ('N', 'C', 'F'):
            cfgs.append(Config('twice n=%d A then %s' % (n, form), h_twice(n, 'A', form, flagsets[0]), 900))
    return cfgs


def replay(rec):
    return replay_keep(R.unjson_num(rec['inputs']))
