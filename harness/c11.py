"""C11 -- fits do not depend on labelling, ordering, units of brightness, or history.

Relational queries on the real Models.fit / Fitter.fit inside one exploration:
  I1  filter permutations (photometry, model columns and extinction pattern permuted alike): same
      av/sc/chi2/ranking, predicted fluxes permuted alike
  I2  model permutations: same per-model av/sc/chi2; same ranked chi2 sequence; same name order unless
      two chi2 values tie
  I3  (2-D grids) scaling every flux and error by c > 0 (flag-4 log fluxes shifted by log10 c, limit
      confidences untouched): scale shifts by -0.5*log10 c, A_V and chi2 unchanged
  I4  a Fitter returns the same result for a source whatever it fitted before, and never modifies the
      source, the model grid or its own patterns
"""
from __future__ import annotations

import copy
import itertools

import numpy as np
import z3

from symx import core as C, symnp, loader, report as R, symunits as su
from .common import Config, mval, close, std_assumptions, conj
from . import fitfix
from .fitfix import Scenario, FITTED
from .c03 import snapshot, variant
from .c01 import StubExtinction, make_fitter

ID = 'C11'


def permuted(sc, perm):
    """The same problem with filters re-ordered by perm (new position i holds old filter perm[i])."""
    v = copy.copy(sc)
    p = list(perm)
    v.flags = tuple(sc.flags[i] for i in p)
    v.fitted = [j for j, fl in enumerate(v.flags) if fl in FITTED]
    v.F = sc.F[p]
    v.E = sc.E[p]
    v.k = sc.k[p]
    v.M = sc.M[..., p]
    return v


def model_permuted(sc, perm):
    v = copy.copy(sc)
    p = list(perm)
    v.names = [sc.names[i] for i in p]
    v.M = sc.M[p]
    return v


def replay_rel(inp):
    try:
        ia, _, _ = fitfix.real_fit_inputs(inp['A'])
        ib, _, _ = fitfix.real_fit_inputs(inp['B'])
    except Exception as e:  # noqa: BLE001
        return True, {'raised': '%s: %s' % (type(e).__name__, e)}
    kind = inp['kind']
    bad = []
    tol = dict(rtol=1e-7, atol=1e-9, equal_nan=True)
    A = lambda f: np.asarray(getattr(ia, f), dtype=float)
    B = lambda f: np.asarray(getattr(ib, f), dtype=float)
    if kind == 'I1':
        p = inp['perm']
        for f in ('av', 'sc', 'chi2'):
            if not np.allclose(A(f), B(f), **tol):
                bad.append((f, A(f).tolist(), B(f).tolist()))
        if [str(x) for x in ia.model_name] != [str(x) for x in ib.model_name]:
            bad.append('names')
        if not np.allclose(A('model_fluxes')[:, p], B('model_fluxes'), **tol):
            bad.append('model_fluxes')
    elif kind == 'I2':
        da = {str(n): (float(a), float(s), float(c)) for n, a, s, c in zip(ia.model_name, ia.av, ia.sc, ia.chi2)}
        db = {str(n): (float(a), float(s), float(c)) for n, a, s, c in zip(ib.model_name, ib.av, ib.sc, ib.chi2)}
        for n in da:
            if not all(close(x, y, 1e-7, 1e-9) for x, y in zip(da[n], db[n])):
                bad.append((n, da[n], db[n]))
        if not np.allclose(A('chi2'), B('chi2'), **tol):
            bad.append('ranked chi2 differ')
        chi = A('chi2')
        tie = any(close(chi[i], chi[i + 1], 1e-9, 1e-12) for i in range(len(chi) - 1))
        if not tie and [str(x) for x in ia.model_name] != [str(x) for x in ib.model_name]:
            bad.append('order differs without a tie')
    elif kind == 'I3':
        c = inp['c']
        if not np.allclose(A('av'), B('av'), **tol) or not np.allclose(A('chi2'), B('chi2'), rtol=1e-6, atol=1e-8):
            bad.append(('av/chi2', A('av').tolist(), B('av').tolist(), A('chi2').tolist(), B('chi2').tolist()))
        if not np.allclose(A('sc') - 0.5 * np.log10(c), B('sc'), **tol):
            bad.append(('sc', A('sc').tolist(), B('sc').tolist()))
    return bool(bad), {'mismatch': bad[:3]}


def h_filters(flags, nm, nd=None):
    nf = len(flags)

    def run(part):
        std_assumptions(part)
        part.bounds = {'invariance': 'filter permutation (all %d!)' % nf, 'filters': nf, 'models': nm, 'distances': nd,
                       'flags': ''.join(map(str, flags))}
        fx = fitfix.Fit()
        ex = C.Explorer(query_timeout_ms=60000)
        cl = R.Claims(part, ex, ID)
        perms = [p for p in itertools.permutations(range(nf)) if p != tuple(range(nf))]

        cur = [None]

        def body(c):
            A = Scenario(c, flags, nm, nd)
            ia = snapshot(A.fit(fx))
            res = []
            for p in [cur[0]]:
                B = permuted(A, p)
                res.append((p, B, snapshot(B.fit(fx))))
            c.vars = (A, res)
            return ia

        with loader.Coverage() as cov:
          for p_ in perms:
            cur[0] = p_
            for c, out in ex.run(body):
                A, res = c.vars
                if out[0] == 'exc':
                    cl.crash(c, out[1], 'fit', lambda m: {'A': A.inputs(m), 'B': A.inputs(m), 'kind': 'I1', 'perm': list(range(nf))}, replay_rel)
                    continue
                sa = out[1]
                for p, B, sb in res:
                    inputs = lambda m, B=B, p=p: {'A': A.inputs(m), 'B': B.inputs(m), 'kind': 'I1', 'perm': list(p)}
                    ok = sa['name'] == sb['name'] and sa['mid'] == sb['mid']
                    t = []
                    if ok:
                        for f in ('av', 'sc', 'chi2'):
                            t += [C.same(x, y) for x, y in zip(sa[f], sb[f])]
                        for ra, rb in zip(sa['mf'], sb['mf']):
                            t += [C.same(ra[p[i]], rb[i]) for i in range(nf)]
                    cl.claim(c, conj(t) if ok else False, 'I1 filter permutation %s leaves the fit unchanged' % (p,), inputs, replay_rel)
                if part.witnesses < 2:
                    cl.witness(c)
        R.finish_part(part, ex, cov)
    return run


def h_models(flags, nm, nd=None, only_perms=None):
    def run(part):
        std_assumptions(part)
        part.bounds = {'invariance': 'model permutation (all %d!)' % nm if only_perms is None else 'model permutations %s' % (only_perms,), 'filters': len(flags), 'models': nm, 'distances': nd,
                       'flags': ''.join(map(str, flags))}
        fx = fitfix.Fit()
        ex = C.Explorer(query_timeout_ms=60000)
        cl = R.Claims(part, ex, ID)
        perms = [p for p in itertools.permutations(range(nm)) if p != tuple(range(nm))] if only_perms is None else list(only_perms)

        cur = [None]

        def body(c):
            A = Scenario(c, flags, nm, nd)
            ia = snapshot(A.fit(fx))
            res = []
            for p in [cur[0]]:
                B = model_permuted(A, p)
                res.append((p, B, snapshot(B.fit(fx))))
            c.vars = (A, res)
            return ia

        with loader.Coverage() as cov:
          for p_ in perms:
            cur[0] = p_
            for c, out in ex.run(body):
                A, res = c.vars
                if out[0] == 'exc':
                    cl.crash(c, out[1], 'fit', lambda m: {'A': A.inputs(m), 'B': A.inputs(m), 'kind': 'I2'}, replay_rel)
                    continue
                sa = out[1]
                for p, B, sb in res:
                    inputs = lambda m, B=B: {'A': A.inputs(m), 'B': B.inputs(m), 'kind': 'I2'}
                    da = {n: (a, s, x) for n, a, s, x in zip(sa['name'], sa['av'], sa['sc'], sa['chi2'])}
                    db = {n: (a, s, x) for n, a, s, x in zip(sb['name'], sb['av'], sb['sc'], sb['chi2'])}
                    t = []
                    for n in da:
                        t += [C.same(x, y) for x, y in zip(da[n], db[n])]
                    t += [C.same(x, y) for x, y in zip(sa['chi2'], sb['chi2'])]
                    if sa['name'] != sb['name']:
                        chi = sa['chi2']
                        t.append(z3.Or([C.same(chi[i], chi[i + 1]) for i in range(len(chi) - 1)]))
                    cl.claim(c, conj(t), 'I2 model permutation %s: same per-model results, same ranking up to ties' % (p,), inputs, replay_rel)
                if part.witnesses < 2:
                    cl.witness(c)
        R.finish_part(part, ex, cov)
    return run


def h_scale(flags, nm):
    nf = len(flags)

    def run(part):
        std_assumptions(part)
        part.bounds = {'invariance': 'flux scaling by any c > 0', 'filters': nf, 'models': nm, 'flags': ''.join(map(str, flags))}
        part.assumptions |= {"log10 obeys the product rule log10(c*x) = log10 c + log10 x for positive c, x (the only property of log used)",
                             "lemma chaining: at the boundaries of get_log_fluxes / linear_regression / optimal_scaling / chi_squared the second "
                             "(scaled) run is proved to be the first one shifted by log10 c before the run continues; each lemma is a discharged query"}
        fx = fitfix.Fit()
        ex = C.Explorer(query_timeout_ms=120000)
        cl = R.Claims(part, ex, ID)
        st = {}
        SrcCls = fx.source_mod.Source
        fr = fx.fr
        inner = dict(glf=SrcCls.get_log_fluxes, lr=fr.linear_regression, os=fr.optimal_scaling, chi=fr.chi_squared)

        def lemma(goals, label):
            c = C.ctx()
            if cl.claim(c, conj(goals), label, st['inputs'], replay_rel, timeout_ms=120000):
                c.pre.append(conj(goals))

        def flat(x):
            return list(symnp._obj(su.value_of(x)).reshape(-1))

        def glf(self):
            r = inner['glf'](self)
            if st['run'] == 'A':
                st['glfA'] = r
            else:
                (wa, ya, ea), (wb, yb, eb) = [tuple(flat(x) for x in g_) for g_ in (st['glfA'], r)]
                g = []
                for j, fl in enumerate(flags):
                    g.append(C.same(wa[j], wb[j]))
                    if fl in (1, 2, 3, 4):
                        g.append(C.same(yb[j], ya[j] + st['lc']))
                    if fl != 9:
                        g.append(C.same(ea[j], eb[j]))
                lemma(g, 'I3 lemma 1: transformed fluxes shift by log10 c; weights and errors unchanged')
            return r

        def lr(*a, **kw):
            r = inner['lr'](*a, **kw)
            if st['run'] == 'A':
                st['lrA'] = (r[0].copy(), r[1].copy())      # Models.fit clamps these arrays in place
            else:
                g = [C.same(x, y) for x, y in zip(flat(st['lrA'][0]), flat(r[0]))]
                g += [C.same(y, x - 0.5 * st['lc']) for x, y in zip(flat(st['lrA'][1]), flat(r[1]))]
                lemma(g, 'I3 lemma 2: regression A_V equal, scale shifted by -0.5*log10 c')
            return r

        def os_(*a, **kw):
            r = inner['os'](*a, **kw)
            if st['run'] == 'A':
                st['osA'] = r.copy()
            elif np.shape(r) == np.shape(st.get('osA')):
                lemma([C.same(y, x - 0.5 * st['lc']) for x, y in zip(flat(st['osA']), flat(r))],
                      'I3 lemma 3: re-optimised scale shifted by -0.5*log10 c')
            return r

        def chi(*a, **kw):
            r = inner['chi'](*a, **kw)
            if st['run'] == 'A':
                st['chiA'] = r.copy()
            else:
                lemma([C.same(x, y) for x, y in zip(flat(st['chiA']), flat(r))], 'I3 lemma 4: chi2 unchanged')
            return r
        SrcCls.get_log_fluxes, fr.linear_regression, fr.optimal_scaling, fr.chi_squared = glf, lr, os_, chi

        def body(c):
            st.clear()
            A = Scenario(c, flags, nm)
            cc = C.fresh_real('c')
            c.assume(cc > 0)
            F2, E2 = A.F.copy(), A.E.copy()
            for j, fl in enumerate(flags):
                if fl == 4:
                    symnp._plain(F2)[j] = A.F[j] + C.s_log10(cc)
                else:
                    symnp._plain(F2)[j] = cc * A.F[j]
                    if fl not in (2, 3):
                        symnp._plain(E2)[j] = cc * A.E[j]
            B = variant(A, F=F2, E=E2)
            c.vars = (A, B, cc)
            st['lc'] = C.s_log10(cc)
            st['inputs'] = lambda m: {'A': A.inputs(m), 'B': B.inputs(m), 'kind': 'I3', 'c': mval(m, cc)}
            st['run'] = 'A'
            sa = snapshot(A.fit(fx))
            st['run'] = 'B'
            sb = snapshot(B.fit(fx))
            return sa, sb

        with loader.Coverage() as cov:
            for c, out in ex.run(body):
                A, B, cc = c.vars
                inputs = lambda m: {'A': A.inputs(m), 'B': B.inputs(m), 'kind': 'I3', 'c': mval(m, cc)}
                if out[0] == 'exc':
                    cl.crash(c, out[1], 'fit', inputs, replay_rel)
                    continue
                sa, sb = out[1]
                da = {n: (a, s, x) for n, a, s, x in zip(sa['name'], sa['av'], sa['sc'], sa['chi2'])}
                db = {n: (a, s, x) for n, a, s, x in zip(sb['name'], sb['av'], sb['sc'], sb['chi2'])}
                shift = 0.5 * C.s_log10(cc)
                t = []
                for n in da:
                    t += [C.same(da[n][0], db[n][0]), C.same(da[n][1] - shift, db[n][1]), C.same(da[n][2], db[n][2])]
                cl.claim(c, conj(t), 'I3 scaling fluxes by c shifts every scale by -0.5*log10 c; A_V and chi2 unchanged', inputs, replay_rel,
                         timeout_ms=120000)
                if part.witnesses < 2:
                    cl.witness(c)
        R.finish_part(part, ex, cov)
    return run


def h_history(flag_seq, nm, order, nd=None, extended=None):
    """order: indices into the list of sources, e.g. (0, 1, 0): fit s0, s1, s0 on ONE fitter."""
    def run(part):
        std_assumptions(part)
        part.bounds = {'invariance': 'history independence / no mutation', 'sequence': list(order),
                       'sources': [''.join(map(str, f)) for f in flag_seq], 'models': nm}
        fx = fitfix.Fit()
        ex = C.Explorer(query_timeout_ms=60000)
        cl = R.Claims(part, ex, ID)
        nf = len(flag_seq[0])

        def state(fitter, mod, srcs):
            val = lambda a: list(symnp._obj(su.value_of(a)).reshape(-1))
            st = [val(mod.fluxes), val(fitter.av_law), val(fitter.sc_law), [str(x) for x in mod.names]]
            for s in srcs:
                st += [val(s.flux), val(s.error), [int(v) for v in s.valid], s.name]
            return st

        extarr = None
        if extended is not None:
            extarr = np.zeros((nm, nd, nf), dtype=bool)
            for (m_, d_, f_) in extended:
                extarr[m_, d_, f_] = True

        def mk_models(base):
            if nd is None:
                return fx.models(base.names, base.M)
            return fx.models(base.names, base.M, distances=np.arange(1, nd + 1, dtype=float), logd=base.logd,
                             extended=None if extarr is None else extarr.copy())

        def body(c):
            base = Scenario(c, flag_seq[0], nm, nd)
            scs = [base] + [Scenario(c, fl, nm, nd, tag='_%d' % i, k=base.k, grid=base.M) for i, fl in enumerate(flag_seq[1:], 1)]
            if nd is not None:
                for s_ in scs[1:]:
                    s_.logd = base.logd
            srcs = [fx.source(s.flags, s.F, s.E, name='s%d' % i) for i, s in enumerate(scs)]
            mod = mk_models(base)
            fitter, _ = make_fitter(fx, mod, StubExtinction(base.k), (base.lo, base.hi), nf)
            st0 = state(fitter, mod, srcs)
            hist = []
            for i in order:
                hist.append((i, snapshot(fitter.fit(srcs[i]))))
            st1 = state(fitter, mod, srcs)
            fresh = []
            for i in range(len(srcs)):
                mod2 = mk_models(base)
                f2, _ = make_fitter(fx, mod2, StubExtinction(base.k), (base.lo, base.hi), nf)
                fresh.append(snapshot(f2.fit(fx.source(scs[i].flags, scs[i].F, scs[i].E, name='s%d' % i))))
            c.vars = (scs, st0, st1, hist, fresh)
            return True

        with loader.Coverage() as cov:
            for c, out in ex.run(body):
                if out[0] == 'exc':
                    cl.crash(c, out[1], 'fit sequence')
                    continue
                scs, st0, st1, hist, fresh = c.vars
                t = []
                ok = True
                for a, b in zip(st0, st1):
                    if isinstance(a, list) and a and C.is_sym(a[0]) or isinstance(a, list) and a and isinstance(a[0], float):
                        ok = ok and len(a) == len(b)
                        t += [C.same(x, y) for x, y in zip(a, b)]
                    else:
                        ok = ok and a == b
                cl.claim(c, conj(t) if ok else False, 'I4 fits leave the source, the grid and the fitter patterns unchanged')
                for (i, got) in hist:
                    want = fresh[i]
                    ok = got['name'] == want['name'] and got['mid'] == want['mid']
                    t = []
                    if ok:
                        for f in ('av', 'sc', 'chi2'):
                            t += [C.same(x, y) for x, y in zip(got[f], want[f])]
                        for ra, rb in zip(got['mf'], want['mf']):
                            t += [C.same(x, y) for x, y in zip(ra, rb)]
                    cl.claim(c, conj(t) if ok else False, 'I4 result for source %d equals the result of a fresh fitter' % i)
                if part.witnesses < 2:
                    cl.witness(c)
        R.finish_part(part, ex, cov)
    return run


def configs(tier, seed):
    q = tier == 'quick'
    cfgs = []
    for flags, nm in ([((1, 4), 1), ((1, 4, 2), 1), ((4, 1, 9), 2)] if q else
                      [((1, 4), 1), ((1, 4, 2), 1), ((4, 1, 9), 2), ((1, 1, 4, 3), 1), ((4, 4, 4), 2), ((1, 3, 4), 2)]):
        cfgs.append(Config('I1 filters 2-D nm=%d flags=%s' % (nm, ''.join(map(str, flags))), h_filters(flags, nm), 3000))
    for flags, nm, nd in ([((4, 1), 1, 2), ((1, 2, 4), 1, 2)] if q else [((4, 1), 1, 2), ((1, 2, 4), 1, 2), ((4, 1), 2, 2), ((4, 1, 1), 1, 3)]):
        cfgs.append(Config('I1 filters 3-D nm=%d nd=%d flags=%s' % (nm, nd, ''.join(map(str, flags))), h_filters(flags, nm, nd), 3000))
    for flags, nm in ([((1, 4), 2), ((4, 2, 1), 2), ((1, 4), 3)] if q else [((1, 4), 2), ((4, 2, 1), 2), ((1, 4), 3), ((4, 4, 3), 3)]):
        cfgs.append(Config('I2 models 2-D nm=%d flags=%s' % (nm, ''.join(map(str, flags))), h_models(flags, nm), 3000))
    cfgs.append(Config('I2 models 3-D nm=2 nd=2 flags=41', h_models((4, 1), 2, 2), 3000))
    if not q:
        cfgs.append(Config('I2 models 2-D nm=4 flags=14 (reversal and one 4-cycle)', h_models((1, 4), 4, only_perms=[(3, 2, 1, 0), (1, 2, 3, 0)]), 6000))
    for flags, nm in ([((1, 1), 1), ((1, 4, 1), 1), ((1, 2, 1), 1), ((1, 1), 2)] if q else
                      [((1, 1), 1), ((1, 4, 1), 1), ((1, 2, 1), 1), ((1, 1), 2), ((1, 3, 4, 1), 1), ((4, 4), 1), ((1, 9, 1, 0), 1), ((1, 1, 2), 2)]):
        cfgs.append(Config('I3 scaling nm=%d flags=%s' % (nm, ''.join(map(str, flags))), h_scale(flags, nm), 3000))
    for seq, order in ([(((1, 4), (4, 4)), (0, 1, 0)), (((1, 4, 2), (4, 1, 3)), (1, 0))] if q else
                       [(((1, 4), (4, 4)), (0, 1, 0)), (((1, 4, 2), (4, 1, 3)), (1, 0)), (((1, 4), (4, 4), (1, 1)), (2, 0, 1)),
                        (((1, 4), (4, 1)), (0, 0, 1, 1))]):
        cfgs.append(Config('I4 history %s order=%s' % ('/'.join(''.join(map(str, f)) for f in seq), ''.join(map(str, order))),
                           h_history(seq, 1, order), 3000))
    # two sources with the SAME flag vector and independent fluxes / errors (anything cached per flag pattern shows here)
    cfgs.append(Config('I4 history same flags 14/14 order=01', h_history(((1, 4), (1, 4)), 1, (0, 1)), 3000))
    cfgs.append(Config('I4 history same flags 441/441 nm=2 order=01', h_history(((4, 4, 1), (4, 4, 1)), 2, (0, 1)), 3000))
    cfgs.append(Config('I4 history nm=2 14/44 order=010', h_history(((1, 4), (4, 4)), 2, (0, 1, 0)), 3000))
    cfgs.append(Config('I4 history 3-D with resolved-model mask, sources 40/44 order=01', h_history(((4, 0), (4, 4)), 1, (0, 1), nd=2, extended=[(0, 0, 1)]), 3000))
    cfgs.append(Config('I4 history 3-D with resolved-model mask, sources 44/40 order=01', h_history(((4, 4), (4, 0)), 1, (0, 1), nd=2, extended=[(0, 1, 1)]), 3000))
    return cfgs


def replay(rec):
    return replay_rel(R.unjson_num(rec['inputs']))
