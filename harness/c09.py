"""C09 -- parameter listings follow the fit ranking, for any parameter-file order.

The real write_parameters, write_parameter_ranges, extract_parameters and FitInfo.filter_table run over the
in-memory file system; parameter columns, chi2/av/sc are symbolic and printed as injective sentinels, so the
harness decides which value is printed in which column of which row:
  P1  in every listing, the parameter values shown for fit i are those of the model named in fit i, for every
      permutation of the parameter-file rows
  P2  n_data / n_fits are the source's fitted-point count and the number of selected fits
  P3  ranges are (min, rank-1 value, max) of every quantity over the selected fits
  P4  user-supplied additional parameters are attached by model name
for results passed as a file, a single object or a list, and for selectors N / A / F.
"""
from __future__ import annotations

import itertools

import numpy as np
import z3

from symx import core as C, symnp, loader, report as R
from .common import Config, mval, std_assumptions, conj
from . import resfix

ID = 'C09'
PARS = ('MASS', 'AGE')


def setup(rf, c, nm, ranked, perm, tag='', pad=False, kinded=False):
    names = ['mod_%s' % 'cabd'[i] for i in range(nm)]          # deliberately not alphabetical
    cols = {p: symnp.sym_array('%s%s' % (p, tag), nm) for p in PARS}
    rf.parameter_file('MODELS', names, cols, order=perm, pad=pad)
    info = rf.info(c, 'a' + tag, [names[i] for i in ranked], flags=(1, 4, 2))
    info.model_id = np.array(ranked)
    return names, cols, info


def parse_numbers(c, line):
    out = []
    for tok in line.split():
        v = c.decode(tok)
        out.append(v if v is not None else tok)
    return out


def expect_rows(info, names, cols, n_fits, additional=None):
    rows = []
    for i in range(n_fits):
        nm_ = str(info.model_name[i])
        m = names.index(nm_)
        row = [nm_, symnp._plain(info.chi2)[i], symnp._plain(info.av)[i], symnp._plain(info.sc)[i]] + [symnp._plain(cols[p])[m] for p in PARS]
        if additional:
            for k in additional:
                row.append(additional[k][nm_])
        rows.append(row)
    return rows


def same_tok(a, b):
    if isinstance(a, str) or isinstance(b, str):
        return z3.BoolVal(isinstance(a, str) and isinstance(b, str) and a == b)
    if a is b:
        return z3.BoolVal(True)
    return C.same(a, b)


def n_selected(sel, n):
    form, v = sel
    if form == 'A':
        return n
    if form == 'N':
        return min(int(v), n)
    return None


def replay_listing(inp):
    """Concrete twin on real files: write_parameters with a permuted parameters.fits."""
    import os
    import shutil
    import tempfile
    from astropy.table import Table
    ld = loader.real_loader()
    FI = ld.load('sedfitter.fit_info')
    S = ld.load('sedfitter.source.source').Source
    fn = {'write_parameters': ld.load('sedfitter.write_parameters').write_parameters,
          'write_parameter_ranges': ld.load('sedfitter.write_parameter_ranges').write_parameter_ranges,
          'extract_parameters': ld.load('sedfitter.extract_parameters').extract_parameters}[inp['function']]
    d = tempfile.mkdtemp(prefix='c09-')
    try:
        with ld.registered():
            names = inp['names']
            t = Table()
            t['MODEL_NAME'] = np.array([names[i] for i in inp['perm']], dtype='S30')
            for p in PARS:
                t[p] = np.array([inp[p][i] for i in inp['perm']], dtype=float)
            os.mkdir(os.path.join(d, 'MODELS'))
            t.write(os.path.join(d, 'MODELS', 'parameters.fits'))
            info = FI.FitInfo()
            s = S()
            s.name = 'src_a'
            s.valid = np.array([1, 4, 2])
            s.flux = np.ones(3)
            s.error = np.ones(3) * 0.1
            info.source = s
            ranked = inp['ranked']
            n = len(ranked)
            info.chi2 = np.array(inp['chi2'], dtype=float)
            info.av = np.array(inp['av'], dtype=float)
            info.sc = np.array(inp['sc'], dtype=float)
            info.model_name = np.array([names[i] for i in ranked], dtype='U30')
            info.model_id = np.array(ranked)
            info.meta.model_dir = os.path.join(d, 'MODELS')
            info.meta.filters, info.meta.extinction_law = [], None
            sel = tuple(inp['select'])
            form = inp['form']
            if form == 'file':
                f = FI.FitInfoFile(os.path.join(d, 'fits.fitinfo'), 'w')
                f.write(info)
                f.close()
                src = os.path.join(d, 'fits.fitinfo')
            else:
                src = info if form == 'object' else [info]
            out = os.path.join(d, 'out.txt')
            add = inp.get('additional')
            try:
                if inp['function'] == 'extract_parameters':
                    kwp = {'parameters': list(inp['parameters'])} if inp.get('parameters') else {}
                    fn(input=src, output_prefix=os.path.join(d, 'x_'), output_suffix='.txt', select_format=sel, **kwp)
                    out = os.path.join(d, 'x_src_a.txt')
                elif add:
                    fn(src, out, select_format=sel, additional=add)
                else:
                    fn(src, out, select_format=sel)
            except Exception as e:  # noqa: BLE001
                return True, {'raised': '%s: %s' % (type(e).__name__, e)}
            lines = open(out).read().splitlines()
            nsel = n_selected(sel, n)
            if nsel is None:
                return False, 'selector not replayed'
            if inp['function'] == 'write_parameters':
                rows = lines[4:4 + nsel]
                for i, ln in enumerate(rows):
                    tk = ln.split()
                    m = names.index(tk[1])
                    want = [inp[p][m] for p in PARS] + ([add[k][tk[1]] for k in add] if add else [])
                    got = [float(x) for x in tk[5:5 + len(want)]]
                    if tk[1] != names[ranked[i]] or not np.allclose(got, want, rtol=2e-3, atol=1e-300):
                        return True, {'row': i, 'line': ln, 'expected_parameters': want}
            elif inp['function'] == 'extract_parameters':
                rows = lines[1:1 + nsel]
                plist = inp.get('parameters')
                for i, ln in enumerate(rows):
                    tk = ln.split()
                    m = ranked[i]
                    if plist:
                        if lines[0].split()[3:] != list(plist):
                            return True, {'header': lines[0]}
                        for q, pn in enumerate(plist):
                            if pn == 'MODEL_NAME':
                                if tk[3 + q] != names[m]:
                                    return True, {'row': i, 'line': ln, 'column': pn}
                            elif not np.allclose(float(tk[3 + q]), inp[pn][m], rtol=2e-3, atol=1e-300):
                                return True, {'row': i, 'line': ln, 'column': pn, 'expected': inp[pn][m]}
                        continue
                    if tk[3] != names[m] or not np.allclose([float(x) for x in tk[4:4 + len(PARS)]], [inp[p][m] for p in PARS], rtol=2e-3):
                        return True, {'row': i, 'line': ln}
            elif nsel > 0:
                tk = lines[3].split()
                vals = [float(x) for x in tk[3:]]
                series = [inp['chi2'][:nsel], inp['av'][:nsel], inp['sc'][:nsel]] + [[inp[p][ranked[i]] for i in range(nsel)] for p in PARS]
                if add:
                    series += [[add[k][names[ranked[i]]] for i in range(nsel)] for k in add]
                for q, ser in enumerate(series):
                    want3 = [min(ser), ser[0], max(ser)]
                    if not np.allclose(vals[3 * q:3 * q + 3], want3, rtol=2e-3, atol=1e-300):
                        return True, {'quantity': q, 'printed (min, best, max)': vals[3 * q:3 * q + 3], 'expected': want3}
            return False, {}
    finally:
        shutil.rmtree(d, ignore_errors=True)


def h_listing(function, nm, ranked, selectors, forms=('file', 'object', 'list'), with_additional=False, parameters=None):
    def run(part):
        std_assumptions(part)
        part.bounds = {'function': function, 'models': nm, 'ranking': list(ranked), 'parameter_file_rows': 'all %d! permutations' % nm,
                       'selectors': [str(s) for s in selectors], 'input_forms': list(forms), 'additional': with_additional}
        part.assumptions |= {"file-system / pickle / FITS-table stubs (see C12, C19); Table.sort and numpy.argsort as documented",
                             "printed numbers are injective sentinels (printed precision outside the claim)"}
        rf = resfix.Res()
        mods = {'write_parameters': rf.L.load('sedfitter.write_parameters'),
                'write_parameter_ranges': rf.L.load('sedfitter.write_parameter_ranges'),
                'extract_parameters': rf.L.load('sedfitter.extract_parameters')}
        fn = getattr(mods[function], function)
        ex = C.Explorer()
        cl = R.Claims(part, ex, ID)

        def body(c):
            results = []
            for perm in itertools.permutations(range(nm)):
                for form in forms:
                    for sel in selectors:
                        names, cols, info = setup(rf, c, nm, ranked, perm)
                        add = None
                        if with_additional:
                            add = {'EXTRA': {n: C.fresh_real('extra_' + n) for n in names}}
                        sel_ = sel
                        if sel[0] == 'F':
                            v = C.fresh_real('vsel')
                            for j in range(len(ranked)):
                                crit = (symnp._plain(info.chi2)[j] - symnp._plain(info.chi2)[0]) / 2.0
                                c.assume(C.mk_bool(z3.Not(C.real(crit)._eq(v))))
                            sel_ = ('F', v)
                        if form == 'file':
                            rf.write_file('/out/fits.fitinfo', [info])
                            src = '/out/fits.fitinfo'
                        else:
                            src = info if form == 'object' else [info]
                        rec = dict(perm=perm, form=form, sel=sel_, names=names, cols=cols, info_before=resfix.snap(info), add=add,
                                   chi2=list(symnp._plain(info.chi2)), av=list(symnp._plain(info.av)), sc=list(symnp._plain(info.sc)),
                                   mname=[str(x) for x in info.model_name])
                        results.append(rec)
                        c.vars = results
                        c.printing = True
                        try:
                            if function == 'extract_parameters':
                                kwp = {'parameters': list(parameters)} if parameters else {}
                                fn(input=src, output_prefix='/out/x_', output_suffix='.txt', select_format=sel_, **kwp)
                                rec['text'] = rf.fs.files['/out/x_src_a.txt']
                                rec['parameters'] = parameters
                            else:
                                kw = {'additional': add} if add else {}
                                fn(src, '/out/list.txt', select_format=sel_, **kw)
                                rec['text'] = rf.fs.files['/out/list.txt']
                        finally:
                            c.printing = False
            return results

        with loader.Coverage() as cov:
            for c, out in ex.run(body):
                if out[0] == 'exc':
                    rec = c.vars[-1]

                    def inputs(m, rec=rec):
                        sel = rec['sel']
                        return {'function': function, 'names': rec['names'], 'perm': list(rec['perm']), 'ranked': list(ranked),
                                'form': rec['form'], 'select': [sel[0], mval(m, sel[1]) if sel[1] is not None else None],
                                'chi2': mval(m, rec['chi2']), 'av': mval(m, rec['av']), 'sc': mval(m, rec['sc']),
                                **{p: mval(m, rec['cols'][p]) for p in PARS}}
                    cl.crash(c, out[1], '%s (rows %s, input %s)' % (function, rec['perm'], rec['form']), inputs, replay_listing)
                    continue
                for rec in out[1]:
                    check_listing(c, cl, function, rec, ranked)
                if part.witnesses < 2:
                    cl.witness(c)
        R.finish_part(part, ex, cov)
    return run


def check_listing(c, cl, function, rec, ranked):
    names, cols, sel = rec['names'], rec['cols'], rec['sel']
    lines = rec['text'].splitlines()
    n = len(ranked)
    fake = type('I', (), {})()
    fake.model_name, fake.chi2, fake.av, fake.sc = rec['mname'], symnp.SymArray(rec['chi2']), symnp.SymArray(rec['av']), symnp.SymArray(rec['sc'])
    label = '%s rows=%s input=%s select=%s' % (function, rec['perm'], rec['form'], sel[0])

    def inputs(m):
        return {'function': function, 'names': names, 'perm': list(rec['perm']), 'ranked': list(ranked), 'form': rec['form'],
                'select': [sel[0], mval(m, sel[1]) if sel[1] is not None else None],
                'additional': None if not rec['add'] else {k: {n: mval(m, x) for n, x in v.items()} for k, v in rec['add'].items()},
                'parameters': None if not rec.get('parameters') else list(rec['parameters']),
                'chi2': mval(m, rec['chi2']), 'av': mval(m, rec['av']), 'sc': mval(m, rec['sc']), **{p: mval(m, cols[p]) for p in PARS}}
    if function == 'write_parameters':
        head = lines[3].split()
        data = lines[4:]
        n_fits = len(data)
        g = [z3.BoolVal(head[0] == 'src_a' and head[1] == '2' and head[2] == str(n_fits))]
        g.append(selected_count_ok(sel, rec, n_fits))
        want = expect_rows(fake, names, cols, min(n_fits, n), rec['add'])
        for i, ln in enumerate(data[:n]):
            tk = parse_numbers(c, ln)
            g.append(z3.BoolVal(tk[0] == str(i + 1)))
            g += [same_tok(a, b) for a, b in zip(tk[1:], want[i])] + [z3.BoolVal(len(tk) - 1 == len(want[i]))]
        cl.claim(c, conj(g), 'P1/P2/P4 ' + label, inputs, replay_listing)
    elif function == 'extract_parameters':
        data = lines[1:]
        n_fits = len(data)
        g = [selected_count_ok(sel, rec, n_fits)]
        want = expect_rows(fake, names, cols, min(n_fits, n))
        plist = rec.get('parameters')
        if plist:
            g.append(z3.BoolVal(lines[0].split()[3:] == list(plist)))      # header names the requested columns in the requested order
        for i, ln in enumerate(data[:n]):
            tk = parse_numbers(c, ln)
            w = want[i]
            if plist:
                byname = dict(zip(('MODEL_NAME',) + PARS, [w[0]] + w[4:]))
                exp = [w[1], w[2], w[3]] + [byname[p] for p in plist]
            else:
                exp = [w[1], w[2], w[3], w[0]] + w[4:]
            g += [same_tok(a, b) for a, b in zip(tk, exp)] + [z3.BoolVal(len(tk) == len(exp))]
        cl.claim(c, conj(g), 'P1 ' + label, inputs, replay_listing)
    else:
        tk = parse_numbers(c, lines[3])
        n_fits = int(tk[2])
        g = [z3.BoolVal(tk[0] == 'src_a' and tk[1] == '2'), selected_count_ok(sel, rec, n_fits)]
        vals = tk[3:]
        want = expect_rows(fake, names, cols, min(n_fits, n), rec['add'])
        ncol = 3 + len(PARS) + (len(rec['add']) if rec['add'] else 0)
        if n_fits == 0:
            g.append(z3.BoolVal(all(v == '-' for v in vals) and len(vals) == 3 * ncol))
        else:
            g.append(z3.BoolVal(len(vals) == 3 * ncol))
            for q in range(ncol):
                mn, best, mx = vals[3 * q:3 * q + 3]
                series = [w[1 + q] for w in want]
                if isinstance(mn, str) or isinstance(mx, str) or isinstance(best, str):
                    g.append(z3.BoolVal(False))
                    continue
                g.append(C.same(best, series[0]))
                g += [C.bterm(C.real(mn) <= x) for x in series] + [z3.Or([C.same(mn, x) for x in series])]
                g += [C.bterm(C.real(mx) >= x) for x in series] + [z3.Or([C.same(mx, x) for x in series])]
        cl.claim(c, conj(g), 'P2/P3 ' + label, inputs, replay_listing)


def selected_count_ok(sel, rec, n_fits):
    form, v = sel
    n = len(rec['chi2'])
    if form == 'A':
        return z3.BoolVal(n_fits == n)
    if form == 'N':
        return z3.BoolVal(n_fits == min(int(v), n))
    g = []
    for j in range(n):
        crit = C.real((rec['chi2'][j] - rec['chi2'][0]) / 2.0)
        below = crit._lt(C.real(v))
        g.append(below if j < n_fits else z3.Not(below))
    return z3.And(g)


def configs(tier, seed):
    q = tier == 'quick'
    cfgs = []
    for function in ('write_parameters', 'write_parameter_ranges', 'extract_parameters'):
        cfgs.append(Config('%s nm=2 ranking=(1,0)' % function, h_listing(function, 2, (1, 0), [('N', 1), ('A', None), ('N', 0)]), 1500))
        cfgs.append(Config('%s nm=3 ranking=(2,0,1)' % function, h_listing(function, 3, (2, 0, 1), [('N', 2), ('A', None)],
                                                                            forms=('file', 'object') if q else ('file', 'object', 'list')), 3000))
        cfgs.append(Config('%s nm=3 ranking=(1,2,0) select F' % function, h_listing(function, 3, (1, 2, 0), [('F', None)], forms=('object',)), 3000))
        if not q:
            cfgs.append(Config('%s nm=4 ranking=(3,1,0,2)' % function, h_listing(function, 4, (3, 1, 0, 2), [('N', 3), ('A', None)], forms=('file',)), 6000))
    cfgs.append(Config('extract_parameters nm=2 parameters=[AGE, MASS] (not the file order)',
                       h_listing('extract_parameters', 2, (0, 1), [('A', None)], forms=('object',), parameters=('AGE', 'MASS')), 1500))
    cfgs.append(Config('extract_parameters nm=3 parameters=[AGE, MODEL_NAME]',
                       h_listing('extract_parameters', 3, (2, 0, 1), [('N', 2)], forms=('file',), parameters=('AGE', 'MODEL_NAME')), 1500))
    for function in ('write_parameters', 'write_parameter_ranges'):
        cfgs.append(Config('%s nm=2 additional parameters ranking=(1,0)' % function, h_listing(function, 2, (1, 0), [('A', None)], forms=('object',), with_additional=True), 1500))
        cfgs.append(Config('%s nm=2 additional parameters ranking=(0,1)' % function, h_listing(function, 2, (0, 1), [('A', None), ('N', 1)], forms=('object', 'file'), with_additional=True), 1500))
        cfgs.append(Config('%s nm=3 additional parameters ranking=(0,2,1)' % function, h_listing(function, 3, (0, 2, 1), [('A', None), ('N', 2)], forms=('list',), with_additional=True), 3000))
    return cfgs


def replay(rec):
    return replay_listing(R.unjson_num(rec['inputs']))
