"""C14 -- the extinction law is normalised at V, unit-free and zero outside its table.

The real Extinction (setters, validators, get_av, __getstate__/__setstate__, to_table/from_table,
from_file with a loadtxt stub) runs on a symbolic opacity table in increasing wavelength covering 0.55 micron:
  E1  get_av(l) == -0.4 * chi(l) / chi(0.55 micron), chi the linear interpolant, 0 outside the table
  E2  exactly -0.4 at 0.55 micron
  E3  unchanged when chi is multiplied by any c > 0, and when wavelengths / opacities / queries are given
      in other units
  E4  pickle state, table conversion and the text-file reader (any column selection) preserve get_av
"""
from __future__ import annotations

import numpy as np
import z3

from symx import core as C, symnp, loader, report as R, symunits as su, symio
from .common import Config, mval, close, std_assumptions, conj, sdiv

ID = 'C14'
U = su.module
Q55 = 0.55


def lin_fork(x, y, t, outside):
    """Linear interpolant of (x increasing, y) at t; `outside` beyond the table (forks on the interval)."""
    n = len(x)
    if t < x[0] or t > x[n - 1]:
        return outside
    for i in range(n - 1):
        if t <= x[i + 1]:
            return y[i] + (t - x[i]) * sdiv(y[i + 1] - y[i], x[i + 1] - x[i])
    return y[n - 1]


def replay_av(inp):
    import astropy.units as u
    ld = loader.real_loader()
    E = ld.load('sedfitter.extinction.extinction').Extinction
    e = E()
    wu = getattr(u, inp['wav_unit'])
    cu = {'cm2/g': u.cm ** 2 / u.g, 'm2/kg': u.m ** 2 / u.kg}[inp['chi_unit']]
    e.wav = np.array(inp['wav'], dtype=float) * wu
    e.chi = np.array(inp['chi'], dtype=float) * cu
    qu = getattr(u, inp['q_unit'])
    try:
        got = e.get_av(np.array(inp['q'], dtype=float) * qu)
    except Exception as ex:  # noqa: BLE001
        return True, {'raised': '%s: %s' % (type(ex).__name__, ex)}
    got = np.asarray(got.value if hasattr(got, 'value') else got, dtype=float)
    w = [float(x) for x in (np.array(inp['wav'], dtype=float) * wu).to(u.micron).value]
    chi = [float(x) for x in inp['chi']]
    qq = (np.array(inp['q'], dtype=float) * qu).to(u.micron).value
    c55 = lin_fork(w, chi, Q55, 0.0)
    want = [-0.4 * lin_fork(w, chi, float(t), 0.0) / c55 for t in qq]
    bad = [(float(g), wv) for g, wv in zip(got, want) if not close(g, wv, 1e-7, 1e-12)]
    return bool(bad), {'mismatch': bad[:3], 'got': got.tolist(), 'want': want}


def replay_rel(inp):
    """E3 twin: real get_av on the table vs the same table with chi*c / expressed in SI units."""
    import astropy.units as u
    ld = loader.real_loader()
    E = ld.load('sedfitter.extinction.extinction').Extinction
    wu = getattr(u, inp['wav_unit'])
    cu = {'cm2/g': u.cm ** 2 / u.g, 'm2/kg': u.m ** 2 / u.kg}[inp['chi_unit']]
    qu = getattr(u, inp['q_unit'])
    wav, chi, q = (np.array(inp[k], dtype=float) for k in ('wav', 'chi', 'q'))
    if np.any(np.diff(wav) <= 0):
        return False, 'degenerate model (float rounding made two nodes coincide)'
    e = E()
    e.wav, e.chi = wav * wu, chi * cu
    e2 = E()
    try:
        a = np.asarray(e.get_av(q * qu), dtype=float)
        if inp['variant'] == 'scale':
            e2.wav, e2.chi = wav * wu, chi * inp['c'] * cu
            b = np.asarray(e2.get_av(q * qu), dtype=float)
        else:
            e2.wav, e2.chi = (wav * wu).to(u.m), (chi * cu).to(u.m ** 2 / u.kg)
            b = np.asarray(e2.get_av((q * qu).to(u.cm)), dtype=float)
    except Exception as ex:  # noqa: BLE001
        return True, {'raised': '%s: %s' % (type(ex).__name__, ex)}
    return (not np.allclose(a, b, rtol=1e-7, atol=1e-12)), {'original': a.tolist(), 'variant': b.tolist()}


def build(c, L, nrows, wav_unit, chi_unit):
    Ext = L.load('sedfitter.extinction.extinction').Extinction
    wav = symnp.sym_array('wav', nrows)
    chi = symnp.sym_array('chi', nrows)
    wu = getattr(U, wav_unit)
    cu = {'cm2/g': U.cm ** 2 / U.g, 'm2/kg': U.m ** 2 / U.kg}[chi_unit]
    q55 = (su.SymQuantity([Q55], U.micron)).to(wu).value[0]
    c.assume(wav[0] > 0)
    for i in range(nrows - 1):
        c.assume(wav[i] < wav[i + 1])
    for i in range(nrows):
        c.assume(chi[i] > 0)
    c.assume(wav[0] <= q55)
    c.assume(wav[nrows - 1] >= q55)
    e = Ext()
    e.wav = wav * wu
    e.chi = chi * cu
    return Ext, e, wav, chi, q55, wu, cu


def h_av(nrows, nq, wav_unit='micron', chi_unit='cm2/g', q_unit='micron'):
    def run(part):
        std_assumptions(part)
        part.bounds = {'rows': nrows, 'queries': nq, 'wav_unit': wav_unit, 'chi_unit': chi_unit, 'query_unit': q_unit,
                       'values': 'any increasing positive wavelengths covering 0.55 micron, any positive opacities, any positive query wavelengths'}
        part.assumptions.add("numpy.interp contract: piecewise linear on increasing xp, left/right outside, exact at nodes")
        fs, env = symio.make_env()
        L = loader.Loader(**env)
        ex = C.Explorer(query_timeout_ms=60000)
        cl = R.Claims(part, ex, ID)

        def body(c):
            Ext, e, wav, chi, q55, wu, cu = build(c, L, nrows, wav_unit, chi_unit)
            q = symnp.sym_array('q', nq)
            for i in range(nq):
                c.assume(q[i] > 0)
            qu = getattr(U, q_unit)
            c.vars = dict(wav=wav, chi=chi, q=q, q55=q55, e=e, Ext=Ext, wu=wu, cu=cu, qu=qu)
            r = e.get_av(q * qu)
            r55 = e.get_av(su.SymQuantity([Q55], U.micron))
            return r, r55

        with loader.Coverage() as cov:
            for c, out in ex.run(body):
                v = c.vars
                inputs = lambda m: {'wav': mval(m, v['wav']), 'chi': mval(m, v['chi']), 'q': mval(m, v['q']), 'wav_unit': wav_unit,
                                    'chi_unit': chi_unit, 'q_unit': q_unit}
                if out[0] == 'exc':
                    cl.crash(c, out[1], 'get_av', inputs, replay_av)
                    continue
                r, r55 = out[1]
                rv = symnp._obj(su.value_of(r))
                w, ch = list(v['wav']), list(v['chi'])
                c55 = lin_fork(w, ch, v['q55'], 0.0)
                g = []
                f = su.exact_factor(v['qu'], v['wu'])
                for i in range(nq):
                    t = v['q'][i] * f
                    g.append(C.same(rv[i], -0.4 * sdiv(lin_fork(w, ch, t, 0.0), c55)))
                dimless = (not hasattr(r, 'unit')) or su.unwrap(r.unit).is_equivalent(su._u.dimensionless_unscaled)
                cl.claim(c, conj(g) if dimless and rv.shape == (nq,) else False, 'E1 get_av == -0.4*chi(l)/chi(0.55um), 0 outside the table', inputs, replay_av)
                cl.claim(c, C.same(symnp._obj(su.value_of(r55))[0], -0.4), 'E2 exactly -0.4 at 0.55 micron',
                         lambda m: dict(inputs(m), q=[Q55], q_unit='micron'), replay_av)
                # E3 relational: scaled opacities, other units
                cc = C.fresh_real('c')
                c.assume(cc > 0)
                e2 = v['Ext']()
                e2.wav = v['wav'] * v['wu']
                e2.chi = (v['chi'] * cc) * v['cu']
                r2 = symnp._obj(su.value_of(e2.get_av(v['q'] * v['qu'])))
                cl.claim(c, conj([C.same(a, b) for a, b in zip(rv, r2)]), 'E3 invariant under chi -> c*chi',
                         lambda m: dict(inputs(m), variant='scale', c=mval(m, cc)), replay_rel)
                e3 = v['Ext']()
                e3.wav = (v['wav'] * v['wu']).to(U.m)
                e3.chi = (v['chi'] * v['cu']).to(U.m ** 2 / U.kg)
                r3 = symnp._obj(su.value_of(e3.get_av((v['q'] * v['qu']).to(U.cm))))
                cl.claim(c, conj([C.same(a, b) for a, b in zip(rv, r3)]), 'E3 invariant under a change of units (m, m2/kg, query in cm)',
                         lambda m: dict(inputs(m), variant='units'), replay_rel)
                if part.witnesses < 2:
                    cl.witness(c)
        R.finish_part(part, ex, cov)
    return run


def h_io(nrows):
    def run(part):
        std_assumptions(part)
        part.bounds = {'rows': nrows, 'readers': 'pickle state, to_table/from_table, from_file (3 columns, every ordered pair)'}
        part.assumptions |= {"numpy.loadtxt is a stub returning the selected columns of a symbolic 3-column file",
                             "Table stub: a quantity assigned to a column keeps values and unit"}
        fs, env = symio.make_env()
        L = loader.Loader(**env)
        ex = C.Explorer(query_timeout_ms=60000)
        cl = R.Claims(part, ex, ID)

        def body(c):
            Ext, e, wav, chi, q55, wu, cu = build(c, L, nrows, 'micron', 'cm2/g')
            q = symnp.sym_array('q', 1)
            c.assume(q[0] > 0)
            ref = symnp._obj(su.value_of(e.get_av(q * U.micron)))
            outs = {}
            e2 = Ext.__new__(Ext)
            e2.__setstate__(e.__getstate__())
            outs['pickle state'] = e2
            outs['table'] = Ext.from_table(e.to_table())
            third = symnp.sym_array('other', nrows)
            cols = [wav, chi, third]
            for (i, j) in ((0, 1), (1, 0), (0, 2), (2, 1)):
                file_cols = [None, None, None]
                file_cols[i], file_cols[j] = wav, chi
                file_cols = [x if x is not None else third for x in file_cols]

                def loadtxt(filename, dtype=None, usecols=None, **kw):
                    names = [d[0] for d in dtype]
                    return {names[0]: file_cols[usecols[0]], names[1]: file_cols[usecols[1]]}
                L.np.loadtxt = loadtxt
                outs['from_file columns=(%d,%d)' % (i, j)] = Ext.from_file('law.txt', columns=(i, j))
            res = {k: symnp._obj(su.value_of(x.get_av(q * U.micron))) for k, x in outs.items()}
            return ref, res

        with loader.Coverage() as cov:
            for c, out in ex.run(body):
                if out[0] == 'exc':
                    cl.crash(c, out[1], 'extinction I/O')
                    continue
                ref, res = out[1]
                for k, r in res.items():
                    cl.claim(c, conj([C.same(a, b) for a, b in zip(ref, r)]), 'E4 get_av survives: %s' % k)
                if part.witnesses < 2:
                    cl.witness(c)
        R.finish_part(part, ex, cov)
    return run


def configs(tier, seed):
    q = tier == 'quick'
    cfgs = []
    for nrows in ((2, 3, 4) if q else (2, 3, 4, 5, 6, 8)):
        cfgs.append(Config('get_av rows=%d nq=%d micron cm2/g' % (nrows, 1 if nrows > 3 else 2), h_av(nrows, 1 if nrows > 3 else 2), 1500))
    cfgs.append(Config('get_av rows=3 nq=1 table in m, m2/kg, query in cm', h_av(3, 1, 'm', 'm2/kg', 'cm'), 1500))
    cfgs.append(Config('get_av rows=2 nq=1 table in cm, query in AU', h_av(2, 1, 'cm', 'cm2/g', 'AU'), 1500))
    cfgs.append(Config('extinction I/O rows=2', h_io(2), 1500))
    cfgs.append(Config('extinction I/O rows=3', h_io(3), 1500))
    return cfgs


def replay(rec):
    inp = R.unjson_num(rec['inputs'])
    return replay_rel(inp) if 'variant' in inp else replay_av(inp)
