"""C12 -- SED, cube and convolved-flux files read back exactly what was stored.

The real SED.write/read, BaseCube.write/read, SEDCube.get_sed and ConvolvedFluxes.write/read run over the
in-memory FITS container with symbolic cell values; unit strings go through the real
to_string(format='fits') / parse_unit_safe.  Decided per path:
  S1  the value read back next to wavelength w (for each aperture / model) is the value stored for w, for
      spectral axes supplied in increasing or decreasing wavelength; the requested order ('nu' | 'wav')
      determines the direction of the axis of wavelengths, frequencies, values and uncertainties together
  S2  names, distance, apertures are carried; optional parts may be absent
  S3  extracting one model from a cube gives the SED that was put in
"""
from __future__ import annotations

import itertools
import os
import tempfile

import numpy as np
import z3

from symx import core as C, symnp, loader, report as R, symunits as su
from .common import Config, mval, close, std_assumptions, conj
from . import sedfix
from .sedfix import U, UNITS

ID = 'C12'


def expected_positions(n, stored_ascending, order):
    """index in the read object of stored column j.  order 'nu' = decreasing wavelength."""
    want_ascending = (order == 'wav')
    return [j if stored_ascending == want_ascending else n - 1 - j for j in range(n)]


# ----------------------------------------------------------------------------
# replay on real files

def replay_sed(inp):
    import astropy.units as u
    r = sedfix.rio()
    s = r.sed.SED()
    s.name = 'model_x'
    s.distance = 1.0 * u.kpc
    w = np.array(inp['w'], dtype=float)
    if inp['given'] in ('wav', 'both'):
        s.wav = w * u.micron
    if inp['given'] in ('nu', 'both'):
        s.nu = (w * u.micron).to(u.Hz, equivalencies=u.spectral())
    if inp.get('ap') is not None:
        s.apertures = np.array(inp['ap'], dtype=float) * u.au
    un = sedfix.real_unit(inp['unit'])
    s.flux = np.array(inp['flux'], dtype=float) * un
    s.error = np.array(inp['err'], dtype=float) * un
    d = tempfile.mkdtemp(prefix='c12-')
    fn = os.path.join(d, 's.fits')
    try:
        s.write(fn)
        t = r.sed.SED.read(fn, unit_flux=un, order=inp['order'])
    except Exception as e:  # noqa: BLE001
        return True, {'raised': '%s: %s' % (type(e).__name__, e)}
    finally:
        import shutil
    n = len(w)
    pos = expected_positions(n, inp['ascending'], inp['order'])
    bad = []
    tw = t.wav.to(u.micron).value
    for j in range(n):
        if not close(tw[pos[j]], w[j], 1e-9):
            bad.append(('wav', j, float(tw[pos[j]]), float(w[j])))
        for a in range(len(inp['flux'])):
            if not close(t.flux[a, pos[j]].value, inp['flux'][a][j], 1e-6, 1e-30):
                bad.append(('flux', a, j, float(t.flux[a, pos[j]].value), inp['flux'][a][j]))
            if not close(t.error[a, pos[j]].value, inp['err'][a][j], 1e-6, 1e-30):
                bad.append(('err', a, j))
    shutil.rmtree(d, ignore_errors=True)
    return bool(bad), {'mismatch': bad[:4]}


def replay_cube(inp):
    import astropy.units as u
    r = sedfix.rio()
    cu = r.cube.SEDCube()
    cu.names = inp['names']
    cu.distance = 1.0 * u.kpc
    w = np.array(inp['w'], dtype=float)
    if inp['given'] == 'wav':
        cu.wav = w * u.micron
    else:
        cu.nu = (w * u.micron).to(u.Hz, equivalencies=u.spectral())
    if inp.get('ap') is not None:
        cu.apertures = np.array(inp['ap'], dtype=float) * u.au
    un = sedfix.real_unit(inp['unit'])
    cu.val = np.array(inp['val'], dtype=float) * un
    if inp.get('unc') is not None:
        cu.unc = np.array(inp['unc'], dtype=float) * un
    d = tempfile.mkdtemp(prefix='c12-')
    fn = os.path.join(d, 'c.fits')
    import shutil
    try:
        cu.write(fn)
        t = r.cube.SEDCube.read(fn, order=inp['order'], memmap=False)
    except Exception as e:  # noqa: BLE001
        shutil.rmtree(d, ignore_errors=True)
        return True, {'raised': '%s: %s' % (type(e).__name__, e)}
    n = len(w)
    pos = expected_positions(n, inp['ascending'], inp['order'])
    bad = []
    tw = t.wav.to(u.micron).value
    val = np.array(inp['val'], dtype=float)
    for j in range(n):
        if not close(tw[pos[j]], w[j], 1e-9):
            bad.append(('wav', j))
        if not np.allclose(t.val[:, :, pos[j]].value, val[:, :, j], rtol=1e-6, atol=1e-30):
            bad.append(('val', j, t.val[:, :, pos[j]].value.tolist(), val[:, :, j].tolist()))
        if inp.get('unc') is not None and not np.allclose(t.unc[:, :, pos[j]].value, np.array(inp['unc'], dtype=float)[:, :, j], rtol=1e-6, atol=1e-30):
            bad.append(('unc', j))
    shutil.rmtree(d, ignore_errors=True)
    return bool(bad), {'mismatch': bad[:3]}


# ----------------------------------------------------------------------------

def h_sed(n_ap, n_wav, ascending, order, unit, given='wav', with_ap=True):
    def run(part):
        std_assumptions(part)
        part.bounds = {'object': 'SED', 'apertures': n_ap if with_ap else 'absent', 'wavelengths': n_wav,
                       'stored_axis': 'increasing wavelength' if ascending else 'decreasing wavelength', 'read_order': order,
                       'unit': unit, 'given': given}
        part.assumptions.add("FITS container stub: headers, column arrays, unit strings and images are stored unchanged; "
                             "on-disk dtype narrowing and memmap are outside the claim")
        io = sedfix.IO()
        ex = C.Explorer(query_timeout_ms=60000)
        cl = R.Claims(part, ex, ID)

        def body(c):
            s, v = sedfix.make_sed(io, c, n_ap, n_wav, ascending, unit, given, with_ap)
            c.vars = v
            s.write('/data/s.fits')
            return io.sed.SED.read('/data/s.fits', unit_flux=UNITS[unit](), order=order)

        with loader.Coverage() as cov:
            for c, out in ex.run(body):
                v = c.vars
                inputs = lambda m: {'w': mval(m, v['w']), 'ap': None if v['ap'] is None else mval(m, v['ap']), 'flux': mval(m, v['flux']),
                                    'err': mval(m, v['err']), 'unit': unit, 'order': order, 'ascending': ascending, 'given': given}
                if out[0] == 'exc':
                    cl.crash(c, out[1], 'SED write/read', inputs, replay_sed)
                    continue
                t = out[1]
                pos = expected_positions(n_wav, ascending, order)
                tw = symnp._obj(t.wav.to(U.micron).value)
                tn = symnp._obj(t.nu.to(U.Hz).value)
                tf = symnp._obj(t.flux.to(UNITS[unit]()).value)
                te = symnp._obj(t.error.to(UNITS[unit]()).value)
                ok = tw.shape == (n_wav,) and tf.shape == (n_ap, n_wav) and te.shape == (n_ap, n_wav) and t.name == 'model_x'
                g = []
                if ok:
                    for j in range(n_wav):
                        g.append(C.same(tw[pos[j]], v['w'][j]))
                        g.append(C.same(tn[pos[j]], sedfix.nu_of(v['w'][j])))
                        for a in range(n_ap):
                            g.append(C.same(tf[a, pos[j]], v['flux'][a, j]))
                            g.append(C.same(te[a, pos[j]], v['err'][a, j]))
                cl.claim(c, conj(g) if ok else False, 'S1 SED: every (aperture, wavelength) cell reads back; axis direction as requested',
                         inputs, replay_sed)
                g = [C.same(t.distance.to(U.kpc).value, 1.0)]
                if with_ap:
                    ta = symnp._obj(t.apertures.to(U.au).value)
                    g += [C.same(ta[i], v['ap'][i]) for i in range(n_ap)] if ta.shape == (n_ap,) else [z3.BoolVal(False)]
                cl.claim(c, conj(g), 'S2 SED: distance and apertures carried', inputs, replay_sed)
                if part.witnesses < 2:
                    cl.witness(c)
        R.finish_part(part, ex, cov)
    return run


def h_cube(nm, n_ap, n_wav, ascending, order, unit, given='wav', with_ap=True, with_unc=True):
    def run(part):
        std_assumptions(part)
        part.bounds = {'object': 'SEDCube', 'models': nm, 'apertures': n_ap if with_ap else 'absent', 'wavelengths': n_wav,
                       'stored_axis': 'increasing wavelength' if ascending else 'decreasing wavelength', 'read_order': order,
                       'unit': unit, 'given': given, 'uncertainties': with_unc}
        part.assumptions.add("FITS container stub (see C12 SED); memmap outside the claim")
        io = sedfix.IO()
        ex = C.Explorer(query_timeout_ms=60000)
        cl = R.Claims(part, ex, ID)
        names = ['m%d' % i for i in range(nm)]

        def body(c):
            cu = io.cube.SEDCube()
            cu.names = names
            cu.distance = 1.0 * U.kpc
            w = sedfix.monotone_wavs(c, n_wav, ascending)
            if given == 'wav':
                cu.wav = w * U.micron
            else:
                cu.nu = (w * U.micron).to(U.Hz, equivalencies=U.spectral())
            ap = None
            if with_ap:
                ap = symnp.sym_array('ap', n_ap)
                for i in range(n_ap):
                    c.assume(ap[i] > 0)
                cu.apertures = ap * U.au
            val = symnp.sym_array('val', (nm, n_ap, n_wav))
            unc = symnp.sym_array('unc', (nm, n_ap, n_wav)) if with_unc else None
            cu.val = val * UNITS[unit]()
            if with_unc:
                cu.unc = unc * UNITS[unit]()
            c.vars = dict(w=w, ap=ap, val=val, unc=unc)
            cu.write('/data/flux.fits')
            t = io.cube.SEDCube.read('/data/flux.fits', order=order, memmap=False)
            seds = [t.get_sed(n) for n in names] if with_unc else None
            return t, seds

        with loader.Coverage() as cov:
            for c, out in ex.run(body):
                v = c.vars
                inputs = lambda m: {'names': names, 'w': mval(m, v['w']), 'ap': None if v['ap'] is None else mval(m, v['ap']),
                                    'val': mval(m, v['val']), 'unc': None if v['unc'] is None else mval(m, v['unc']),
                                    'unit': unit, 'order': order, 'ascending': ascending, 'given': given}
                if out[0] == 'exc':
                    cl.crash(c, out[1], 'cube write/read', inputs, replay_cube)
                    continue
                t, seds = out[1]
                pos = expected_positions(n_wav, ascending, order)
                tw = symnp._obj(t.wav.to(U.micron).value)
                tv = symnp._obj(t.val.to(UNITS[unit]()).value)
                tu = symnp._obj(t.unc.to(UNITS[unit]()).value) if t.unc is not None else None
                ok = tw.shape == (n_wav,) and tv.shape == (nm, n_ap, n_wav) and [str(x) for x in t.names] == names \
                    and (tu is None) == (not with_unc)
                g = []
                if ok:
                    for j in range(n_wav):
                        g.append(C.same(tw[pos[j]], v['w'][j]))
                        for m_ in range(nm):
                            for a in range(n_ap):
                                g.append(C.same(tv[m_, a, pos[j]], v['val'][m_, a, j]))
                                if with_unc:
                                    g.append(C.same(tu[m_, a, pos[j]], v['unc'][m_, a, j]))
                cl.claim(c, conj(g) if ok else False, 'S1 cube: every (model, aperture, wavelength) cell reads back; axis direction as requested',
                         inputs, replay_cube)
                if seds is not None:
                    g = []
                    for m_, s in enumerate(seds):
                        sf = symnp._obj(s.flux.to(UNITS[unit]()).value)
                        se = symnp._obj(s.error.to(UNITS[unit]()).value)
                        sw = symnp._obj(s.wav.to(U.micron).value)
                        if sf.shape != (n_ap, n_wav) or s.name != names[m_]:
                            g.append(z3.BoolVal(False))
                            continue
                        for j in range(n_wav):
                            g.append(C.same(sw[pos[j]], v['w'][j]))
                            for a in range(n_ap):
                                g.append(C.same(sf[a, pos[j]], v['val'][m_, a, j]))
                                g.append(C.same(se[a, pos[j]], v['unc'][m_, a, j]))
                    cl.claim(c, conj(g), 'S3 get_sed(name) returns the SED that was put in', inputs, replay_cube)
                if part.witnesses < 2:
                    cl.witness(c)
        R.finish_part(part, ex, cov)
    return run


def h_conv(nm, n_ap, with_ap=True):
    def run(part):
        std_assumptions(part)
        part.bounds = {'object': 'ConvolvedFluxes', 'models': nm, 'apertures': n_ap if with_ap else 'absent'}
        io = sedfix.IO()
        ex = C.Explorer()
        cl = R.Claims(part, ex, ID)
        names = np.array(['model_%d' % i for i in range(nm)])

        def body(c):
            fl = symnp.sym_array('flux', (nm, n_ap))
            er = symnp.sym_array('err', (nm, n_ap))
            ap = symnp.sym_array('ap', n_ap) if with_ap else None
            wv = C.fresh_real('wav')
            c.assume(wv > 0)
            cf = io.cf.ConvolvedFluxes(wavelength=wv * U.micron, model_names=names, apertures=None if ap is None else ap * U.au,
                                       flux=fl * U.mJy, error=er * U.mJy)
            c.vars = dict(fl=fl, er=er, ap=ap, wv=wv)
            cf.write('/data/conv.fits')
            return io.cf.ConvolvedFluxes.read('/data/conv.fits')

        with loader.Coverage() as cov:
            for c, out in ex.run(body):
                v = c.vars
                if out[0] == 'exc':
                    cl.crash(c, out[1], 'ConvolvedFluxes write/read')
                    continue
                t = out[1]
                tf = symnp._obj(t.flux.to(U.mJy).value)
                te = symnp._obj(t.error.to(U.mJy).value)
                ok = tf.shape == (nm, n_ap) and [str(x).strip() for x in t.model_names] == list(names)
                g = []
                if ok:
                    g += [C.same(tf[p], v['fl'][p]) for p in np.ndindex(nm, n_ap)]
                    g += [C.same(te[p], v['er'][p]) for p in np.ndindex(nm, n_ap)]
                    g.append(C.same(t.central_wavelength.to(U.micron).value, v['wv']))
                    if with_ap:
                        ta = symnp._obj(t.apertures.to(U.au).value)
                        g += [C.same(ta[i], v['ap'][i]) for i in range(n_ap)] if ta.shape == (n_ap,) else [z3.BoolVal(False)]
                    else:
                        g.append(z3.BoolVal(t.apertures is None))
                cl.claim(c, conj(g) if ok else False, 'S1 convolved fluxes: rows, apertures and FILTWAV read back')
                if part.witnesses < 2:
                    cl.witness(c)
        R.finish_part(part, ex, cov)
    return run


def configs(tier, seed):
    q = tier == 'quick'
    cfgs = []
    units = ['mJy', 'erg/cm2/s', 'erg/s', 'Jy']
    for asc in (True, False):
        for order in ('nu', 'wav'):
            for i, unit in enumerate(units if not q else units[:3]):
                given = ('wav', 'nu', 'both')[i % 3]
                cfgs.append(Config('SED n_ap=2 n_wav=3 %s order=%s unit=%s given=%s' % ('asc' if asc else 'desc', order, unit, given),
                                   h_sed(2, 3, asc, order, unit, given), 1500))
            cfgs.append(Config('SED no-apertures n_wav=3 %s order=%s' % ('asc' if asc else 'desc', order),
                               h_sed(1, 3, asc, order, 'mJy', 'wav', with_ap=False), 1500))
            cfgs.append(Config('cube nm=2 n_ap=2 n_wav=3 %s order=%s unit=mJy' % ('asc' if asc else 'desc', order),
                               h_cube(2, 2, 3, asc, order, 'mJy', 'wav' if asc else 'nu'), 1500))
            cfgs.append(Config('cube nm=1 n_ap=1 n_wav=3 %s order=%s no-unc no-ap unit=erg/cm2/s' % ('asc' if asc else 'desc', order),
                               h_cube(1, 1, 3, asc, order, 'erg/cm2/s', 'wav', with_ap=False, with_unc=False), 1500))
            if not q:
                cfgs.append(Config('SED n_ap=3 n_wav=4 %s order=%s unit=mJy' % ('asc' if asc else 'desc', order), h_sed(3, 4, asc, order, 'mJy'), 3000))
                cfgs.append(Config('SED n_ap=5 n_wav=6 %s order=%s unit=erg/s given=nu' % ('asc' if asc else 'desc', order), h_sed(5, 6, asc, order, 'erg/s', 'nu'), 3000))
                cfgs.append(Config('cube nm=3 n_ap=3 n_wav=4 %s order=%s unit=erg/s' % ('asc' if asc else 'desc', order),
                                   h_cube(3, 3, 4, asc, order, 'erg/s'), 3000))
                cfgs.append(Config('cube nm=4 n_ap=2 n_wav=6 %s order=%s unit=Jy given=nu' % ('asc' if asc else 'desc', order),
                                   h_cube(4, 2, 6, asc, order, 'Jy', 'nu'), 3000))
    cfgs.append(Config('conv nm=2 n_ap=2', h_conv(2, 2), 600))
    cfgs.append(Config('conv nm=3 n_ap=1 no-apertures', h_conv(3, 1, with_ap=False), 600))
    return cfgs


def replay(rec):
    inp = R.unjson_num(rec['inputs'])
    return replay_cube(inp) if 'val' in inp else replay_sed(inp)
