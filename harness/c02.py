"""C02 -- distance-dependent fits pick the grid optimum of correctly scaled model fluxes.

H02a  the real Models._read_version_1 / _read_version_2 under stubs (parfile.read, os.path.exists,
      ConvolvedFluxes.read / SEDCube.read return symbolic tables): trial distances form a log-uniform grid
      containing both ends with the fewest points whose spacing does not exceed logd_step; model flux at
      distance d = tabulated flux linearly interpolated to aperture theta*d (clamped at the largest
      aperture) times (1 kpc/d)^2; a request below the smallest aperture is refused.
H02b  the real Models.fit (3-D branch): per model, A_V = clip(least-squares optimum at the reported
      distance), scale = log10 of a grid distance, chi2 = minimum over the grid of the chi2 re-derived at
      each distance.
"""
from __future__ import annotations

import itertools
import types

import numpy as np
import z3

from symx import core as C, symnp, loader, report as R, symunits as su
from .common import Config, mval, close, std_assumptions, conj, sdiv
from . import fitfix
from .fitfix import Scenario, FITTED, penalty

ID = 'C02'
AU_PER_PC_ARCSEC = 1.0   # aperture [AU] = theta [arcsec] * d [pc]


# ----------------------------------------------------------------------------
# H02a

class FakeOS(types.ModuleType):
    def __init__(self, real_os):
        super().__init__('os')
        self._r = real_os
        self.path = types.SimpleNamespace(exists=lambda p: not p.endswith('.gz'), join=real_os.path.join,
                                          basename=real_os.path.basename)

    def __getattr__(self, n):
        return getattr(self._r, n)


def build_tables(L, c, nm, na, nf, rng=None):
    """Per filter: a real ConvolvedFluxes object with symbolic apertures (increasing) and fluxes."""
    u = su.module
    CF = L.load('sedfitter.convolved_fluxes.convolved_fluxes')
    names = np.array(['mod_%s' % 'abcdefgh'[i] for i in range(nm)])
    if rng is None:
        ap = symnp.sym_array('ap', na)
        c.assume(ap[0] > 0)
        for i in range(na - 1):
            c.assume(ap[i] < ap[i + 1])
    else:
        ap = fitfix.conc_array(rng, na, 10., 1000.)
        raw = symnp._plain(ap)
        vals = sorted(float(x) for x in raw)
        for i in range(na):
            raw[i] = vals[i] * (1 + i)
    tabs = []
    for f in range(nf):
        fl = symnp.sym_array('T%d' % f, (nm, na)) if rng is None else fitfix.conc_array(rng, (nm, na))
        er = symnp.sym_array('U%d' % f, (nm, na)) if rng is None else fitfix.conc_array(rng, (nm, na))
        cf = CF.ConvolvedFluxes(wavelength=(1.0 + f) * u.micron, model_names=names,
                                apertures=(ap.copy() * u.au) if na > 1 else (ap.copy() * u.au),
                                flux=fl * u.mJy, error=er * u.mJy)
        tabs.append(cf)
    return names, ap, tabs


def read_models(L, version, tabs, filters, dist_range, step, cube=None):
    u = su.module
    M = L.load('sedfitter.models')
    M.os = FakeOS(__import__('os'))
    conf = {'name': 'grid', 'logd_step': step, 'aperture_dependent': True}
    if version == 2:
        conf['version'] = 2
    M.parfile.read = lambda fn, fmt: dict(conf)
    byname = {'f%d' % i: t for i, t in enumerate(tabs)}
    CF = L.load('sedfitter.convolved_fluxes.convolved_fluxes')

    def read_stub(filename):
        return byname[filename.split('/')[-1].replace('.fits', '')]
    M.ConvolvedFluxes.read = staticmethod(read_stub)
    if version == 2:
        cubemod = L.load('sedfitter.sed.cube')
        cubemod.SEDCube.read = staticmethod(lambda filename, memmap=True, order='nu': cube)
        return M.Models._read_version_2('DIR', filters, distance_range=dist_range, remove_resolved=False, use_memmap=False)
    return M.Models._read_version_1('DIR', filters, distance_range=dist_range, remove_resolved=False)


def spec_interp_clamped(ap, row, q):
    """Linear interpolant of (ap increasing, row) at q, clamped above (forks on the interval)."""
    n = len(ap)
    if n == 1:
        return row[0]
    if q > ap[n - 1]:
        return row[n - 1]
    for i in range(n - 1):
        if q <= ap[i + 1]:
            return row[i] + (q - ap[i]) * sdiv(row[i + 1] - row[i], ap[i + 1] - ap[i])
    return row[n - 1]


def replay_grid(inp):
    """Concrete twin of H02a through the real Models._read_version_N (same stubs, real numpy/astropy)."""
    import astropy.units as u
    ld = loader.real_loader()
    CF = ld.load('sedfitter.convolved_fluxes.convolved_fluxes')
    M = ld.load('sedfitter.models')
    nm, nf = len(inp['names']), len(inp['theta'])
    # log10 is uninterpreted in the symbolic run: if the model's logarithms do not belong to its distances, rebuild the
    # distances from the logarithms (the property is stated in terms of log10 d)
    if 'log10_dmin' in inp and inp['dmin'] != inp['dmax']:
        if abs(np.log10(inp['dmin']) - inp['log10_dmin']) > 1e-12 or abs(np.log10(inp['dmax']) - inp['log10_dmax']) > 1e-12:
            inp = dict(inp, dmin=float(10. ** inp['log10_dmin']), dmax=float(10. ** inp['log10_dmax']))
    tabs = [CF.ConvolvedFluxes(wavelength=(1.0 + f) * u.micron, model_names=np.array(inp['names']),
                               apertures=np.array(inp['ap'], dtype=float) * u.au,
                               flux=np.array(inp['T'][f], dtype=float) * u.mJy, error=np.array(inp['U'][f], dtype=float) * u.mJy)
            for f in range(nf)]
    M.os = FakeOS(__import__('os'))
    conf = {'name': 'grid', 'logd_step': inp['step'], 'aperture_dependent': True}
    if inp['version'] == 2:
        conf['version'] = 2
    M.parfile.read = lambda fn, fmt: dict(conf)
    M.ConvolvedFluxes.read = staticmethod(lambda filename: tabs[int(filename.split('/')[-1].replace('.fits', '')[1:])])
    filters = [{'aperture_arcsec': inp['theta'][f], 'name': 'f%d' % f} for f in range(nf)]
    dr = np.array([inp['dmin'], inp['dmax']], dtype=float) * u.kpc
    try:
        if inp['version'] == 2:
            cubemod = ld.load('sedfitter.sed.cube')
            cubemod.SEDCube.read = staticmethod(lambda filename, memmap=True, order='nu': types.SimpleNamespace(n_models=nm))
            m = M.Models._read_version_2('DIR', filters, distance_range=dr, remove_resolved=False, use_memmap=False)
        else:
            m = M.Models._read_version_1('DIR', filters, distance_range=dr, remove_resolved=False)
    except Exception as e:  # noqa: BLE001
        too_small = any(inp['theta'][f] * inp['dmin'] * 1000. < inp['ap'][0] * (1 - 1e-12) for f in range(nf)) and len(inp['ap']) > 1
        return (not too_small), {'raised': '%s: %s' % (type(e).__name__, e), 'expected_refusal': too_small}
    d = m.distances.to(u.kpc).value
    bad = []
    delta = np.log10(inp['dmax']) - np.log10(inp['dmin'])
    n = len(d)
    if inp['dmin'] == inp['dmax']:
        if n != 1:
            bad.append(('n', n))
    else:
        # (the replay only runs on solver counterexamples, so the boundary case ratio == integer is judged exactly)
        if not ((n - 1) * inp['step'] >= delta * (1 - 1e-12) and (n - 2) * inp['step'] < delta * (1 - 1e-12)):
            bad.append(('n not minimal', n, delta / inp['step']))
        want = np.log10(inp['dmin']) + delta * np.arange(n) / (n - 1)
        if not np.allclose(m.logd, want, rtol=1e-9, atol=1e-12):
            bad.append(('logd', m.logd.tolist(), want.tolist()))
    ap = inp['ap']
    for f in range(nf):
        for i in range(n):
            q = inp['theta'][f] * d[i] * 1000.
            for mm in range(nm):
                want = float(spec_interp_clamped(ap, inp['T'][f][mm], q)) / d[i] ** 2
                got = float(m.fluxes[mm, i, f].value)
                if not close(got, want, 1e-7, 1e-12):
                    bad.append(('flux', mm, i, f, got, want))
    return bool(bad), {'mismatch': bad[:3]}


def h_grid(version, nm, na, nf, nmax, same_ends=False, too_small=False, interp_mode='fork'):
    def run(part):
        std_assumptions(part)
        part.bounds = {'format': 'per-file (v1)' if version == 1 else 'cube (v2)', 'models': nm, 'apertures': na, 'filters': nf,
                       'max_distances': nmax, 'dmin==dmax': same_ends, 'request_below_table': too_small}
        part.assumptions |= {
            "parfile.read, os.path.exists and ConvolvedFluxes.read / SEDCube.read are stubs returning symbolic tables (files are decided in C07/C12)",
            "scipy interp1d(kind='linear') and numpy.logspace/ceil follow their documented contracts",
            "log10 / 10** are uninterpreted inverse functions (10**log10 x = x, log10 10**t = t), monotone on the atoms that occur",
        }
        L = loader.Loader()
        ex = C.Explorer(query_timeout_ms=60000, log_monotone=True, pow10_monotone=True, interp_mode=interp_mode)
        cl = R.Claims(part, ex, ID)
        u = su.module

        def body(c):
            names, ap, tabs = build_tables(L, c, nm, na, nf)
            dmin, dmax = C.fresh_real('dmin'), C.fresh_real('dmax')
            step = C.SymRealPrintable(z3.Real('step'))
            c.assume(dmin > 0)
            c.assume(step > 0)
            if same_ends:
                dmax = dmin
            else:
                c.assume(dmin < dmax)
                # bound on the number of grid points (stated bound of the claim)
                c.assume((C.s_log10(dmax) - C.s_log10(dmin)) <= step * (nmax - 1))
            theta = symnp.sym_array('theta', nf)
            for f in range(nf):
                c.assume(theta[f] > 0)
                if na > 1:
                    if too_small and f == 0:
                        c.assume(theta[f] * dmin * 1000.0 < ap[0])
                    else:
                        c.assume(theta[f] * dmin * 1000.0 >= ap[0])
            filters = [{'aperture_arcsec': theta[f], 'name': 'f%d' % f} for f in range(nf)]
            cube = types.SimpleNamespace(n_models=nm) if version == 2 else None
            c.vars = dict(names=names, ap=ap, tabs=tabs, dmin=dmin, dmax=dmax, step=step, theta=theta)
            dr = symnp.array([dmin, dmax]) * u.kpc
            return read_models(L, version, tabs, filters, dr, step, cube)

        with loader.Coverage() as cov:
            for c, out in ex.run(body):
                v = c.vars
                inputs = lambda m: {'version': version, 'names': [str(x) for x in v['names']], 'ap': mval(m, v['ap']),
                                    'T': [mval(m, su.value_of(t.flux)) for t in v['tabs']],
                                    'U': [mval(m, su.value_of(t.error)) for t in v['tabs']],
                                    'dmin': mval(m, v['dmin']), 'dmax': mval(m, v['dmax']), 'step': mval(m, v['step']),
                                    'log10_dmin': mval(m, C.s_log10(v['dmin'])), 'log10_dmax': mval(m, C.s_log10(v['dmax'])),
                                    'theta': mval(m, v['theta'])}
                if out[0] == 'exc':
                    if too_small and 'too small' in str(out[1]):
                        cl.claim(c, True, 'G5 a request below the smallest tabulated aperture is refused', inputs, replay_grid)
                        if part.witnesses < 2:
                            cl.witness(c)
                        continue
                    cl.crash(c, out[1], 'Models.read', inputs, replay_grid)
                    continue
                if too_small:
                    cl.claim(c, False, 'G5 a request below the smallest tabulated aperture must be refused', inputs, replay_grid)
                    continue
                m = out[1]
                d = list(symnp._obj(m.distances.to(u.kpc).value))
                n = len(d)
                L0, L1 = C.s_log10(v['dmin']), C.s_log10(v['dmax'])
                logd = list(symnp._obj(m.logd))
                if same_ends:
                    cl.claim(c, z3.And(z3.BoolVal(n == 1), C.same(d[0], v['dmin'])), 'G1 dmin == dmax gives the single distance dmin',
                             inputs, replay_grid)
                elif n < 2:
                    cl.claim(c, False, 'G1 a proper range needs at least two grid points', inputs, replay_grid)
                    continue
                else:
                    delta = L1 - L0
                    g = [z3.BoolVal(n >= 2), C.bterm(v['step'] * (n - 1) >= delta), C.bterm(v['step'] * (n - 2) < delta)]
                    # counterexamples are easier to replay in floating point with dmin = 1 kpc and a dyadic step
                    nice = [C.same(v['dmin'], 1.0), C.same(L0, 0.0), C.same(v['dmax'], 10.0), C.same(L1, 1.0),
                            z3.Or(C.same(v['step'], 1.0), C.same(v['step'], 0.5), C.same(v['step'], 0.25))]
                    cl.claim(c, conj(g), 'G1 fewest points whose spacing does not exceed logd_step (n=%d)' % n, inputs, replay_grid, prefer=nice)
                    g = [C.same(d[0], v['dmin']), C.same(d[n - 1], v['dmax'])]
                    g += [C.same(logd[i], L0 + delta * i / (n - 1)) for i in range(n)]
                    cl.claim(c, conj(g), 'G2 log-uniform grid including both ends (n=%d)' % n, inputs, replay_grid)
                cl.claim(c, conj([C.same(logd[i], C.s_log10(d[i])) for i in range(n)]), 'G3 reported scale grid is log10(d/kpc)', inputs, replay_grid)
                fl = symnp._obj(su.value_of(m.fluxes))
                ok = fl.shape == (nm, n, nf) and [str(x) for x in m.names] == [str(x) for x in v['names']]
                goals = []
                if ok:
                    ap = list(v['ap'])
                    for f in range(nf):
                        T = symnp._obj(su.value_of(v['tabs'][f].flux))
                        for i in range(n):
                            q = v['theta'][f] * (d[i] * 1000.0)
                            for mm in range(nm):
                                want = sdiv(spec_interp_clamped(ap, list(T[mm]), q), d[i] * d[i])
                                goals.append(C.same(fl[mm, i, f], want))
                cl.claim(c, conj(goals) if ok else False, 'G4 flux = interpolated table at theta*d (clamped above) * (1 kpc/d)^2', inputs, replay_grid)
                if part.witnesses < 2:
                    cl.witness(c)
        R.finish_part(part, ex, cov)
    return run


# ----------------------------------------------------------------------------
# H02b

def replay_fit3(inp):
    try:
        info, _, _ = fitfix.real_fit_inputs(inp)
    except Exception as e:  # noqa: BLE001
        return True, {'raised': '%s: %s' % (type(e).__name__, e)}
    rows = fitfix.float_rows_3d(inp)
    bad = []
    for i, mid in enumerate(int(x) for x in info.model_id):
        per, best = rows[mid]
        a, c2, pred = per[best]
        if not close(info.chi2[i], c2, 1e-6, 1e-8):
            bad.append(('chi2', i, float(info.chi2[i]), c2))
        match = [d for d in range(len(per)) if close(info.sc[i], inp['logd'][d], 1e-9, 1e-12)]
        if not match:
            bad.append(('scale not on grid', float(info.sc[i])))
        elif not any(close(info.av[i], per[d][0], 1e-6, 1e-8) and close(info.chi2[i], per[d][1], 1e-6, 1e-8) for d in match):
            bad.append(('av/chi2 not those of the reported distance', i))
    return bool(bad), {'mismatch': bad[:3]}


def observe(fx):
    """Record arguments / results of optimal_scaling and chi_squared (function-boundary observation)."""
    rec = {}
    fr = fx.fr
    os_, cs_ = fr.optimal_scaling, fr.chi_squared

    def optimal_scaling(data, weights, pattern1):
        r = os_(data, weights, pattern1)
        rec.setdefault('os', []).append(r.copy())
        return r

    def chi_squared(valid, data, error, weight, model):
        r = cs_(valid, data, error, weight, model)
        rec.setdefault('chi', []).append((model.copy(), r.copy()))
        return r
    fr.optimal_scaling, fr.chi_squared = optimal_scaling, chi_squared
    return rec


def h_fit3(flags, nm, nd, conf_kind='open', mask_assign='fork'):
    nf = len(flags)
    fitted = [j for j, fl in enumerate(flags) if fl in FITTED]

    def run(part):
        std_assumptions(part)
        part.bounds = {'filters': nf, 'models': nm, 'distances': nd, 'flags': ''.join(map(str, flags)), 'confidence': conf_kind}
        part.assumptions.add("the per-distance A_V and chi2 are observed at the boundaries of optimal_scaling / chi_squared and each "
                             "is proved equal to the independent specification before the selection over distances is checked")
        fx = fitfix.Fit()
        rec = observe(fx)
        ex = C.Explorer(query_timeout_ms=60000, mask_assign=mask_assign)
        cl = R.Claims(part, ex, ID)

        def body(c, rng=None):
            rec.clear()
            sc = Scenario(c, flags, nm, nd, conf_kind, rng)
            c.vars = sc
            return sc.fit(fx)

        with loader.Coverage() as cov:
            for c, out in ex.run(body):
                sc = c.vars
                if out[0] == 'exc':
                    cl.crash(c, out[1], 'fit', sc.inputs, replay_fit3)
                    continue
                info = out[1]
                w, y = sc.transform()
                k = list(symnp._obj(sc.k))
                av, s_, chi = (list(symnp._obj(su.value_of(x))) for x in (info.av, info.sc, info.chi2))
                uo = symnp._obj(su.value_of(rec['os'][-1]))             # (nm, nd) unclamped 1-D optimum
                model, chi_all = rec['chi'][-1]
                model = symnp._obj(su.value_of(model))                  # (nm, nd, nf) = clamped A_V * k
                chi_all = symnp._obj(su.value_of(chi_all))              # (nm, nd)
                lo, hi = sc.lo, sc.hi
                den = 0.0
                for j in fitted:
                    den = den + w[j] * k[j] * k[j]
                g1, g2, g3 = [], [], []
                for m in range(nm):
                    for d in range(nd):
                        L = [fitfix.slog10(sc.M[m, d, j]) for j in range(nf)]
                        num = 0.0
                        for j in fitted:
                            num = num + w[j] * (y[j] - L[j]) * k[j]
                        u_ = C.real(uo[m, d])
                        g1.append(C.same(u_, sdiv(num, den)))
                        for j in range(nf):
                            mj = C.real(model[m, d, j])
                            g2.append(z3.And(z3.Implies(u_.t < lo.t, mj.t == (lo * k[j]).t), z3.Implies(u_.t > hi.t, mj.t == (hi * k[j]).t),
                                             z3.Implies(z3.And(u_.t >= lo.t, u_.t <= hi.t), mj.t == (u_ * k[j]).t)))
                        tot = 0.0
                        for j, fl in enumerate(flags):
                            pred = L[j] + model[m, d, j]
                            if fl in FITTED:
                                dd = y[j] - pred
                                tot = tot + w[j] * dd * dd
                            elif fl in (2, 3):
                                cond = (pred < y[j]) if fl == 2 else (pred > y[j])
                                tot = tot + C.ite(cond, penalty(sc.E[j]), 0.0)
                        g3.append(C.same(chi_all[m, d], tot))
                cl.claim(c, conj(g1), 'D1 per distance: unclamped A_V is the 1-D least-squares optimum', sc.inputs, replay_fit3)
                cl.claim(c, conj(g2), 'D2 per distance: the A_V used is the optimum clipped to the range', sc.inputs, replay_fit3)
                cl.claim(c, conj(g3), 'D3 per distance: chi2 = weighted residuals + limit penalties at that A_V', sc.inputs, replay_fit3)
                for i, mid in enumerate(int(x) for x in info.model_id):
                    ds = [d for d in range(nd) if C.is_sym(s_[i]) and C.real(s_[i]).t.eq(C.real(sc.logd[d]).t)]
                    if len(ds) != 1:
                        cl.claim(c, False, 'D4 row %d: the reported scale is not one of the grid log-distances' % i, sc.inputs, replay_fit3)
                        continue
                    d = ds[0]
                    u_ = C.real(uo[mid, d])
                    a_i = C.real(av[i])
                    g = [C.same(chi[i], chi_all[mid, d]),
                         z3.Implies(u_.t < lo.t, a_i.t == lo.t), z3.Implies(u_.t > hi.t, a_i.t == hi.t),
                         z3.Implies(z3.And(u_.t >= lo.t, u_.t <= hi.t), a_i.t == u_.t)]
                    g += [C.bterm(C.real(chi[i]) <= chi_all[mid, dd]) for dd in range(nd)]
                    cl.claim(c, conj(g), 'D4 row %d: (A_V, chi2) are those of the reported grid distance and chi2 is the grid minimum' % i,
                             sc.inputs, replay_fit3)
                if part.witnesses < 2:
                    cl.witness(c)
        R.finish_part(part, ex, cov)
    return run


def configs(tier, seed):
    q = tier == 'quick'
    cfgs = []
    for version in (1, 2):
        cfgs.append(Config('H02a v%d dmin==dmax nm=1 na=2 nf=1' % version, h_grid(version, 1, 2, 1, 1, same_ends=True), 1500))
        for (nm, na, nf, nmax) in ([(1, 2, 1, 3), (1, 3, 1, 2), (2, 2, 2, 2)] if q else
                                   [(1, 2, 1, 3), (1, 3, 1, 2), (2, 2, 2, 2), (1, 2, 1, 5), (1, 3, 2, 3), (1, 4, 1, 3), (2, 3, 1, 3)]):
            cfgs.append(Config('H02a v%d nm=%d na=%d nf=%d n<=%d' % (version, nm, na, nf, nmax), h_grid(version, nm, na, nf, nmax), 3000))
        cfgs.append(Config('H02a v%d single aperture nm=1 nf=1 n<=3' % version, h_grid(version, 1, 1, 1, 3), 1500))
        cfgs.append(Config('H02a v%d request below the table' % version, h_grid(version, 1, 2, 1, 2, too_small=True), 1500))
    for flags, nm, nd in ([((4, 1), 1, 2), ((1, 2, 4), 1, 2), ((4, 4), 2, 2), ((4, 1), 1, 3)] if q else
                          [((4, 1), 1, 2), ((1, 2, 4), 1, 2), ((4, 4), 2, 2), ((4, 1), 1, 3), ((1, 3, 4), 1, 3), ((4, 9, 1, 0), 1, 2),
                           ((1,), 1, 3), ((4, 1), 2, 3)]):
        heavy = nd >= 3 and (nm > 1 or len(flags) > 2)
        cfgs.append(Config('H02b fit nm=%d nd=%d flags=%s%s' % (nm, nd, ''.join(map(str, flags)), ' (clamp as if-then-else term)' if heavy else ''),
                           h_fit3(flags, nm, nd, mask_assign='ite' if heavy else 'fork'), 3000))
    cfgs.append(Config('H02b fit nm=1 nd=2 flags=142 conf=one', h_fit3((1, 4, 2), 1, 2, 'one'), 3000))
    return cfgs


def replay(rec):
    inp = R.unjson_num(rec['inputs'])
    if 'theta' in inp:
        return replay_grid(inp)
    return replay_fit3(inp)
