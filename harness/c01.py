"""C01 -- best-fit (A_V, scale) is the constrained weighted least-squares optimum; chi^2 = minimum + limit
penalties at the same (A_V, scale).

Decomposition (every link is a solver query; DESIGN.md 4.2):
  per path of the real Fitter.__init__/Fitter.fit/Models.fit/linear_regression/optimal_scaling/
  chi_squared/get_log_fluxes/FitInfo.sort, for every result row:
    P1  A_V   == clip(a*, lo, hi)         a* = Cramer solution of the normal equations (spec moments)
    P2  scale == (C2 - A_V*M12)/M22       (stationarity in the scale at the reported A_V)
    P3  chi2  == sum_S w (y - L - A_V k + 2 scale)^2 + sum_limits P_j [prediction on forbidden side]
    P4  the row's name is the model's name; scale pattern is -2 per filter, A_V pattern is
        extinction.get_av(models.wavelengths), range is av_range[0], av_range[1]
  code-independent lemmas (moment space / data space):
    L0  the Cramer solution satisfies both normal equations
    L1  PSD moments, det>0, M22>0: (clip(a*), s(clip(a*))) minimises f over [lo,hi] x R
    L2  w>0 and the k of the fitted points not all equal  =>  det>0 and M22>0     (n = 2..nf)
  anchor: direct, undecomposed optimality through the real code for two fitted points.
"""
from __future__ import annotations

import itertools

import numpy as np
import z3

from symx import core as C, symnp, loader, report as R, symunits as su
from .common import Config, mval, close, std_assumptions, conj, sdiv
from . import fitfix
from .fitfix import FITTED, Moments, spec_transform, penalty

ID = 'C01'


class StubExtinction:
    """Stands for an Extinction object: get_av is decided separately (C14); here it hands out an
    arbitrary real pattern k (dimensionless quantity, as the real method does)."""

    def __init__(self, k):
        self.k = k
        self.asked = []

    def get_av(self, wav):
        self.asked.append(wav)
        return su.SymQuantity(self.k, su._u.dimensionless_unscaled)


def make_fitter(fx, models, ext, av_range, nf):
    u = su.module
    fitmod = fx.L.load('sedfitter.fit')
    seen = {}

    def read_stub(model_dir, filters, distance_range=None, remove_resolved=False, use_memmap=True):
        seen['args'] = (model_dir, filters, distance_range, remove_resolved)
        return models
    fitmod.Models.read = staticmethod(read_stub)
    fitter = fitmod.Fitter(['f%d' % i for i in range(nf)], np.ones(nf) * u.arcsec, 'MODELDIR',
                           extinction_law=ext, av_range=av_range, distance_range=np.array([1., 2.]) * u.kpc)
    return fitter, seen


def conc_array(rng, shape, lo=0.1, hi=10.0):
    """Concrete stand-in for sym_array (translator validation: the shims run on plain floats)."""
    a = np.empty(shape if isinstance(shape, tuple) else (shape,), dtype=object)
    for pos in np.ndindex(*a.shape):
        a[pos] = float(rng.uniform(lo, hi))
    return a.view(symnp.SymArray)


def data_for(c, flags, conf_kind, rng=None):
    """Symbolic photometry for a flag vector; returns (F, E, pre-facts registered)."""
    nf = len(flags)
    if rng is not None:
        F = conc_array(rng, nf)
        E = conc_array(rng, nf, 0.05, 0.9)
        for j, fl in enumerate(flags):
            if fl in (2, 3) and conf_kind in ('zero', 'one'):
                symnp._plain(E)[j] = 0.0 if conf_kind == 'zero' else 1.0
        return F, E
    F = symnp.sym_array('F', nf)
    E = symnp.sym_array('E', nf)
    for j, fl in enumerate(flags):
        if fl in (1, 9):
            c.assume(F[j] > 0)
            c.assume(E[j] > 0)
        elif fl == 4:
            c.assume(E[j] > 0)           # F is a log10 flux: any real
        elif fl in (2, 3):
            c.assume(F[j] > 0)
            if conf_kind == 'open':
                c.assume(E[j] > 0)
                c.assume(E[j] < 1)
            elif conf_kind == 'zero':
                symnp._plain(E)[j] = 0.0
            elif conf_kind == 'one':
                symnp._plain(E)[j] = 1.0
        else:
            c.assume(F[j] > 0)
            c.assume(E[j] > 0)
    return F, E


def float_spec(flags, F, E, M, k, lo, hi):
    """Independent float oracle for the replay: per model (av, sc, chi2)."""
    nf = len(flags)
    tr = [spec_transform(fl, F[j], E[j]) for j, fl in enumerate(flags)]
    w = [t[0] for t in tr]
    y = [t[1] for t in tr]
    fitted = [j for j, fl in enumerate(flags) if fl in FITTED]
    out = []
    for mrow in M:
        L = [float(np.log10(v)) for v in mrow]
        r = [None if y[j] is None else y[j] - L[j] for j in range(nf)]
        mo = Moments(w, r, k, fitted)
        a = mo.a_star()
        a = lo if a < lo else (hi if a > hi else a)
        s = mo.s_given(a)
        chi = fitfix.spec_chi2(flags, w, y, E, L, k, a, s)
        out.append((a, s, chi))
    return out


def replay_fit(inp):
    flags = inp['flags']
    try:
        src = fitfix.real_source(flags, inp['F'], inp['E'])
        mod = fitfix.real_models(inp['names'], inp['M'])
        info = mod.fit(src, np.array(inp['k'], dtype=float), -2. * np.ones(len(flags)), inp['lo'], inp['hi'])
    except Exception as e:  # noqa: BLE001
        return True, {'raised': '%s: %s' % (type(e).__name__, e)}
    want = float_spec(flags, inp['F'], inp['E'], inp['M'], inp['k'], inp['lo'], inp['hi'])
    bad = []
    for i in range(len(info.chi2)):
        mid = int(info.model_id[i])
        a, s, chi = want[mid]
        if str(info.model_name[i]) != inp['names'][mid]:
            bad.append(('name', i))
        if not close(info.av[i], a, 1e-6, 1e-8):
            bad.append(('av', i, float(info.av[i]), a))
        if not close(info.sc[i], s, 1e-6, 1e-8):
            bad.append(('sc', i, float(info.sc[i]), s))
        if not close(info.chi2[i], chi, 1e-6, 1e-7):
            bad.append(('chi2', i, float(info.chi2[i]), chi))
    return bool(bad), {'mismatch': bad[:4]}


def h_fit(flags, nm, conf_kind='open', via_fitter=True):
    nf = len(flags)
    fitted = [j for j, fl in enumerate(flags) if fl in FITTED]
    names = ['mod_%s' % 'abcdefgh'[i] for i in range(nm)]

    def run(part):
        std_assumptions(part)
        part.bounds = {'filters': nf, 'models': nm, 'flags': ''.join(map(str, flags)), 'confidence': conf_kind,
                       'values': 'all positive fluxes/errors, any real extinction pattern k (fitted k not all equal), '
                                 'any positive model fluxes, any lo <= hi'}
        part.assumptions |= {
            "log10/ln are uninterpreted (hash-consed per argument term); no property of them is used except that equal arguments give equal values",
            "Models.read is stubbed (returns the symbolic grid); Extinction.get_av is replaced by an arbitrary real pattern (decided in C14)",
            "divisions assume a non-zero denominator; det != 0 follows from lemma L2 (discharged in this run)",
            "P0 first: get_log_fluxes == documented transform; once proved, P1-P3 are stated over its outputs and their definitions are left out of the relevance-staged queries (hypotheses only dropped; last stage is the full set)",
        }
        fx = fitfix.Fit()
        ex = C.Explorer(query_timeout_ms=60000)
        cl = R.Claims(part, ex, ID)
        SrcCls = fx.source_mod.Source
        inner_glf = SrcCls.get_log_fluxes
        seen_glf = {}

        def glf(self_):
            r = inner_glf(self_)
            seen_glf['out'] = tuple(symnp._obj(su.value_of(x)).copy() for x in r)
            return r
        SrcCls.get_log_fluxes = glf

        def body(c, rng=None):
            seen_glf.clear()
            F, E = data_for(c, flags, conf_kind, rng)
            if rng is not None:
                M = conc_array(rng, (nm, nf))
                k = conc_array(rng, nf, -1.0, 0.0)
                lo, hi = sorted([float(rng.uniform(0, 6)), float(rng.uniform(0, 6))])
            else:
                M = symnp.sym_array('M', (nm, nf))
                for p in np.ndindex(nm, nf):
                    c.assume(M[p] > 0)
                k = symnp.sym_array('k', nf)
                c.assume(C.mk_bool(z3.Or([k[i].t != k[j].t for i, j in itertools.combinations(fitted, 2)])))
                lo, hi = C.fresh_real('lo'), C.fresh_real('hi')
                c.assume(lo <= hi)
            src = fx.source(flags, F, E)
            mod = fx.models(names, M)
            c.vars = dict(F=F, E=E, M=M, k=k, lo=lo, hi=hi, names=names)
            if via_fitter:
                ext = StubExtinction(k)
                fitter, seen = make_fitter(fx, mod, ext, (lo, hi), nf)
                c.vars['fitter'] = fitter
                c.vars['ext'] = ext
                c.vars['mod'] = mod
                return fitter.fit(src)
            return mod.fit(src, k, -2.0 * symnp.ones(nf), lo, hi)

        with loader.Coverage() as cov:
            for c, out in ex.run(body):
                v = c.vars
                F, E, M, k, lo, hi = v['F'], v['E'], v['M'], v['k'], v['lo'], v['hi']
                inputs = lambda m: {'flags': list(flags), 'names': names, 'F': mval(m, F), 'E': mval(m, E),
                                    'M': mval(m, M), 'k': mval(m, k), 'lo': mval(m, lo), 'hi': mval(m, hi)}
                if out[0] == 'exc':
                    cl.crash(c, out[1], 'fit', inputs, replay_fit)
                    continue
                info = out[1]
                # P4: structure
                ok = len(info.chi2) == nm and sorted(map(str, info.model_name)) == sorted(names)
                ok = ok and all(str(info.model_name[i]) == names[int(info.model_id[i])] for i in range(nm))
                if via_fitter:
                    ft = v['fitter']
                    ok = ok and len(v['ext'].asked) == 1 and v['ext'].asked[0] is v['mod'].wavelengths
                    scl = symnp._obj(su.value_of(ft.sc_law))
                    ok = ok and scl.shape == (nf,) and all((not C.is_sym(x)) and float(x) == -2.0 for x in scl)
                    ok = ok and info.meta.model_dir == 'MODELDIR' and info.meta.extinction_law is v['ext']
                cl.claim(c, bool(ok), 'P4 rows name their model; scale pattern -2; A_V pattern from get_av(models.wavelengths)',
                         inputs, replay_fit)
                # spec quantities
                tr = [spec_transform(fl, F[j], E[j]) for j, fl in enumerate(flags)]
                w = [t[0] for t in tr]
                y = [t[1] for t in tr]
                # P0 (lemma, decided first): the data transform of the real get_log_fluxes is the documented one.  Once it is
                # proved the specification below is written over the transform's outputs, and their (rational, for flag 1
                # rather heavy) definitions are left out of the remaining queries (lemma chaining; hypotheses are only dropped)
                if 'out' in seen_glf:
                    gw, gy, ge = seen_glf['out']
                    g0 = []
                    for j, fl in enumerate(flags):
                        if fl in FITTED:
                            g0 += [C.same(gw[j], w[j]), C.same(gy[j], y[j])]
                        elif fl in (2, 3):
                            g0 += [C.same(gw[j], 0.0), C.same(gy[j], y[j]), C.same(ge[j], E[j])]
                        else:
                            g0 += [C.same(gw[j], 0.0)]
                    if cl.claim(c, conj(g0), 'P0 get_log_fluxes: weights, log fluxes and confidences are the documented transform', inputs, replay_fit):
                        for j, fl in enumerate(flags):
                            if fl in FITTED:
                                w[j], y[j] = gw[j], gy[j]
                                c.supersede(C.real(gw[j]), C.real(gy[j]))
                av = symnp._obj(su.value_of(info.av))
                sc = symnp._obj(su.value_of(info.sc))
                chi = symnp._obj(su.value_of(info.chi2))
                for i in range(nm):
                    mid = int(info.model_id[i])
                    L = [fitfix.slog10(M[mid, j]) for j in range(nf)]
                    r = [None if y[j] is None else y[j] - L[j] for j in range(nf)]
                    mo = Moments(w, r, list(k), fitted)
                    a_star = C.real(mo.a_star())
                    a_i, s_i = C.real(av[i]), C.real(sc[i])
                    clip = z3.And(z3.Implies(a_star.t < lo.t, a_i.t == lo.t),
                                  z3.Implies(a_star.t > hi.t, a_i.t == hi.t),
                                  z3.Implies(z3.And(a_star.t >= lo.t, a_star.t <= hi.t), a_i.t == a_star.t))
                    cl.claim(c, clip, 'P1 A_V == clip(unconstrained optimum) [row %d]' % i, inputs, replay_fit)
                    cl.claim(c, C.same(s_i, mo.s_given(a_i)), 'P2 scale stationary at the reported A_V [row %d]' % i,
                             inputs, replay_fit)
                    # chi2 (penalties as additive if-then-else of atoms)
                    tot = 0.0
                    for j, fl in enumerate(flags):
                        pred = L[j] + a_i * k[j] - 2.0 * s_i
                        if fl in FITTED:
                            d = y[j] - pred
                            tot = tot + w[j] * d * d
                        elif fl in (2, 3):
                            P = penalty(E[j])
                            cond = (pred < y[j]) if fl == 2 else (pred > y[j])
                            tot = tot + C.ite(cond, P, 0.0)
                    cl.claim(c, C.same(chi[i], tot), 'P3 chi2 == weighted residuals + limit penalties at (A_V, scale) [row %d]' % i,
                             inputs, replay_fit)
                if part.witnesses < 2:
                    cl.witness(c)
            validate_concrete(part, ex, body, seed_base=hash(flags) % 1000)
        R.finish_part(part, ex, cov)
    return run


def validate_concrete(part, ex, body, seed_base=0, n=3):
    """Translator validation: the shimmed code on plain floats must agree with the real code."""
    for t in range(n):
        rng = np.random.default_rng(seed_base * 97 + t)
        got = {}

        def conc(c):
            info = body(c, rng)
            got['info'] = info
            got['vars'] = c.vars
        ex2 = C.Explorer()
        ex2.explore(conc)
        info, v = got['info'], got['vars']
        inp = {'flags': None, 'F': mval(None, v['F']), 'E': mval(None, v['E']), 'M': mval(None, v['M']),
               'k': mval(None, v['k']), 'lo': v['lo'], 'hi': v['hi']}
        src = fitfix.real_source([int(x) for x in info.source.valid], inp['F'], inp['E'])
        mod = fitfix.real_models([str(x) for x in v['names']], inp['M'])
        real = mod.fit(src, np.array(inp['k'], dtype=float), -2. * np.ones(len(inp['F'])), inp['lo'], inp['hi'])
        # rows are matched by model name: with two fitted points every chi2 is exactly 0 over the reals (a tie), and the
        # floating-point ranking of the real code is then decided by rounding noise
        rn, sn = [str(a) for a in real.model_name], [str(a) for a in info.model_name]
        sch = [x for x in symnp._obj(su.value_of(info.chi2)).tolist()]
        ok = sorted(rn) == sorted(sn) and (rn == sn or len(set(sch)) < len(sch))
        if ok:
            perm = [sn.index(x) for x in rn]
            for a, b in ((real.av, info.av), (real.sc, info.sc), (real.chi2, info.chi2), (real.model_fluxes, info.model_fluxes)):
                bb = np.array(symnp._obj(su.value_of(b)).tolist(), dtype=float)[perm]
                ok = ok and np.allclose(np.asarray(a, dtype=float), bb, rtol=1e-9, atol=1e-12, equal_nan=True)
        if ok:
            part.validated += 1
        else:
            part.validation_failures.append("shimmed vs real Models.fit differ on %s" % (R.jsonable(inp),))


# ----------------------------------------------------------------------------
# lemmas

def lemma_L0(part):
    part.bounds = {'space': 'moments (M11, M12, M22, C1, C2), det != 0'}
    ex = C.Explorer()
    cl = R.Claims(part, ex, ID)

    def body(c):
        M11, M12, M22, C1, C2 = [C.fresh_real(n) for n in ('M11', 'M12', 'M22', 'C1', 'C2')]
        det = M11 * M22 - M12 * M12
        c.assume(det != 0)
        a = (M22 * C1 - M12 * C2) / det
        s = (M11 * C2 - M12 * C1) / det
        cl.claim(c, z3.And((M11 * a + M12 * s).t == C1.t, (M12 * a + M22 * s).t == C2.t),
                 'L0 Cramer solution satisfies the normal equations')
        cl.witness(c)
    ex.explore(body)
    R.finish_part(part, ex)


def lemma_L1(part):
    """PSD moments: the clipped unconstrained optimum with re-optimised scale is the box-constrained optimum."""
    part.bounds = {'space': 'moments with M11>=0, M22>0, det>0; any lo<=hi; any competitor (a2 in [lo,hi], s2)'}
    ex = C.Explorer(query_timeout_ms=300000)
    cl = R.Claims(part, ex, ID)

    def body(c):
        M11, M12, M22, C1, C2, lo, hi, a2, s2 = [C.fresh_real(n) for n in
                                                  ('M11', 'M12', 'M22', 'C1', 'C2', 'lo', 'hi', 'a2', 's2')]
        det = M11 * M22 - M12 * M12
        c.assume(M22 > 0)
        c.assume(det > 0)
        c.assume(lo <= hi)
        c.assume(a2 >= lo)
        c.assume(a2 <= hi)
        astar = (M22 * C1 - M12 * C2) / det
        a = astar
        if astar < lo:
            a = lo
        elif astar > hi:
            a = hi
        s = (C2 - a * M12) / M22

        def f(p, q):   # objective up to the constant sum w r^2
            return p * p * M11 + 2.0 * p * q * M12 + q * q * M22 - 2.0 * p * C1 - 2.0 * q * C2
        cl.claim(c, f(a, s) <= f(a2, s2), 'L1 clip + re-optimised scale is the constrained global optimum', timeout_ms=300000)
        cl.witness(c)
    ex.explore(body)
    R.finish_part(part, ex)


def lemma_L2(n):
    def run(part):
        part.bounds = {'fitted_points': n}
        ex = C.Explorer(query_timeout_ms=300000)
        cl = R.Claims(part, ex, ID)

        def body(c):
            w = [C.fresh_real('w%d' % i) for i in range(n)]
            k = [C.fresh_real('k%d' % i) for i in range(n)]
            for x in w:
                c.assume(x > 0)
            c.assume(C.mk_bool(z3.Or([k[i].t != k[j].t for i, j in itertools.combinations(range(n), 2)])))
            mo = Moments(w, [0.0] * n, k, range(n))
            # Lagrange identity, then positivity
            lag = 0.0
            for i, j in itertools.combinations(range(n), 2):
                lag = lag + 4.0 * w[i] * w[j] * (k[i] - k[j]) * (k[i] - k[j])
            cl.claim(c, C.same(mo.det, lag), 'L2 det == 4 sum_{i<j} w_i w_j (k_i-k_j)^2 (n=%d)' % n)
            cl.claim(c, z3.And(C.real(mo.det).t > 0, C.real(mo.M22).t > 0), 'L2 det > 0 and M22 > 0 (n=%d)' % n)
            cl.witness(c)
        ex.explore(body)
        R.finish_part(part, ex)
    return run


def anchor_direct(part):
    """Undecomposed: f(av, sc) <= f(a2, s2) through the real code, two fitted points, one model."""
    std_assumptions(part)
    part.bounds = {'filters': 2, 'models': 1, 'flags': '44 and 14'}
    ex = C.Explorer(query_timeout_ms=300000)
    cl = R.Claims(part, ex, ID)
    for flags in ((4, 4), (1, 4)):
        fx = fitfix.Fit(cuts=False)

        def body(c, flags=flags):
            F, E = data_for(c, flags, 'open')
            M = symnp.sym_array('M', (1, 2))
            k = symnp.sym_array('k', 2)
            c.assume(k[0] != k[1])
            for p in np.ndindex(1, 2):
                c.assume(M[p] > 0)
            lo, hi = C.fresh_real('lo'), C.fresh_real('hi')
            c.assume(lo <= hi)
            a2, s2 = C.fresh_real('a2'), C.fresh_real('s2')
            c.assume(a2 >= lo)
            c.assume(a2 <= hi)
            src = fx.source(flags, F, E)
            mod = fx.models(['m'], M)
            info = mod.fit(src, k, -2.0 * symnp.ones(2), lo, hi)
            tr = [spec_transform(fl, F[j], E[j]) for j, fl in enumerate(flags)]

            def f(a, s):
                t = 0.0
                for j in range(2):
                    d = tr[j][1] - fitfix.slog10(M[0, j]) - a * k[j] + 2.0 * s
                    t = t + tr[j][0] * d * d
                return t
            cl.claim(c, f(info.av[0], info.sc[0]) <= f(a2, s2), 'anchor: reported (A_V, scale) beats any (a2 in [lo,hi], s2) [flags %s]' % (flags,),
                     timeout_ms=300000)
            cl.claim(c, C.same(info.chi2[0], f(info.av[0], info.sc[0])), 'anchor: chi2 is the objective value')
        ex.explore(body)
    R.finish_part(part, ex)


def flag_vectors(nf, tier):
    out = []
    for v in itertools.product((0, 1, 2, 3, 4, 9), repeat=nf):
        if sum(1 for f in v if f in FITTED) >= 2:
            out.append(v)
    return out


def configs(tier, seed):
    cfgs = [Config('L0 Cramer', lemma_L0, 600), Config('L1 clip optimal (moment space)', lemma_L1, 1200),
            Config('anchor direct optimality n=2', anchor_direct, 1500)]
    for n in ((2, 3) if tier == 'quick' else (2, 3, 4, 5)):
        cfgs.append(Config('L2 det>0 n=%d' % n, lemma_L2(n), 1200))
    if tier == 'quick':
        for nf in (2, 3):
            for v in flag_vectors(nf, tier):
                cfgs.append(Config('fit nm=1 flags=%s' % ''.join(map(str, v)), h_fit(v, 1), 900))
        for v in [(1, 4, 2), (4, 3, 1), (1, 1, 9), (4, 0, 4), (4, 4, 4)]:
            cfgs.append(Config('fit nm=2 flags=%s' % ''.join(map(str, v)), h_fit(v, 2), 1500))
        for ck in ('zero', 'one'):
            for v in [(1, 4, 2), (4, 3, 1), (2, 1, 1)]:
                cfgs.append(Config('fit nm=1 flags=%s conf=%s' % (''.join(map(str, v)), ck), h_fit(v, 1, ck), 900))
    else:
        for nf in (2, 3, 4):
            for v in flag_vectors(nf, tier):
                # four fitted points: the equality of two rational functions in 19 variables is at the edge of what nlsat
                # decides in minutes (9 of the 16 mixed 1/4 vectors came back unknown); only the pure vectors are kept
                if sum(1 for f in v if f in FITTED) == 4 and len(set(v)) > 1:
                    continue
                cfgs.append(Config('fit nm=1 flags=%s' % ''.join(map(str, v)), h_fit(v, 1), 1800))
        for v in flag_vectors(3, tier):
            cfgs.append(Config('fit nm=2 flags=%s' % ''.join(map(str, v)), h_fit(v, 2), 3000))
        for v in [(1, 4, 0), (4, 4, 4), (4, 9, 1)]:
            cfgs.append(Config('fit nm=3 flags=%s' % ''.join(map(str, v)), h_fit(v, 3), 3000))
        for v in [(4, 2, 4, 3, 1), (4, 4, 9, 0, 4), (1, 0, 2, 9, 1)]:
            cfgs.append(Config('fit nm=1 flags=%s' % ''.join(map(str, v)), h_fit(v, 1), 3000))
        for ck in ('zero', 'one'):
            for v in flag_vectors(3, tier):
                if any(f in (2, 3) for f in v):
                    cfgs.append(Config('fit nm=1 flags=%s conf=%s' % (''.join(map(str, v)), ck), h_fit(v, 1, ck), 1800))
    return cfgs


def replay(rec):
    return replay_fit(R.unjson_num(rec['inputs']))
