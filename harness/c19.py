"""C19 -- a fit output file cut short by a crash never yields a wrong record.

Model: the real FitInfoFile.write produces an append-only stream of records (3 metadata pickles, then one
per source) whose byte lengths are SYMBOLIC; the truncation offset (the crash point) is a SYMBOLIC integer in
[0, total length).  The real FitInfoFile.__init__/__iter__ then read the stream; pickle.load follows the
contract of _pickle (complete record -> object; nothing left -> EOFError; record cut short -> EOFError or
UnpicklingError, both explored).  Decided on every path: either an exception propagates, or the yielded
records are exactly the written records lying wholly before the cut, in order - never a partial, altered or
extra record.

The contract itself is validated concretely on every run: a real file written by the real code is cut at
every byte offset and read back by the real code (exhaustive for that file).
"""
from __future__ import annotations

import os
import pickle
import tempfile

import numpy as np
import z3

from symx import core as C, symnp, loader, report as R, symio
from .common import Config, mval, std_assumptions, conj
from . import resfix
from .resfix import snap, same_snap

ID = 'C19'


def h_trunc(r, with_fluxes):
    def run(part):
        std_assumptions(part)
        part.bounds = {'records': r, 'metadata_pickles': 3, 'record_lengths': 'any positive integers', 'cut': 'any offset in [0, total)',
                       'predicted_fluxes_stored': with_fluxes}
        part.assumptions.add("_pickle contract: a stream of self-delimiting pickles; load of a complete record returns it, load at end of data "
                             "raises EOFError, load of a record cut short raises EOFError or UnpicklingError (validated byte-by-byte below)")
        lens = {}

        def record_len(i):
            if i not in lens:
                lens[i] = C.SymInt(z3.Int('len%d' % i))
            return lens[i]
        rf = resfix.Res(record_len=record_len)
        ex = C.Explorer()
        cl = R.Claims(part, ex, ID)

        def body(c):
            lens.clear()
            infos = [rf.info(c, 's%d' % i, ['ma', 'mb'][:1 + i % 2], with_fluxes=with_fluxes) for i in range(r)]
            meta = rf.meta_values()
            for i in infos:
                i.meta.model_dir, i.meta.filters, i.meta.extinction_law = meta
            rf.write_file('/out/fits.pkl', infos)
            stream = rf.fs.files['/out/fits.pkl']
            total = 0
            for (_s, n) in stream.records:
                c.assume(n >= 1)
                total = total + n
            cut = C.SymInt(z3.Int('cut'))
            c.assume(cut >= 0)
            c.assume(cut < total)
            stream.truncate_at = cut
            c.vars = (infos, stream, cut)
            got = []
            f = rf.fi.FitInfoFile('/out/fits.pkl', 'r')
            for info in f:
                got.append(info)
            return got

        with loader.Coverage() as cov:
            for c, out in ex.run(body):
                infos, stream, cut = c.vars
                if out[0] == 'exc':
                    ok = isinstance(out[1], (EOFError, pickle.UnpicklingError))
                    cl.claim(c, bool(ok), 'T1 reading a truncated file fails with an unpickling / end-of-file error (%s)' % type(out[1]).__name__)
                    if part.witnesses < 3:
                        cl.witness(c)
                    continue
                got = out[1]
                # the records wholly before the cut
                g = []
                ok = len(got) <= r
                if ok:
                    start = 0
                    ends = []
                    for (_s, n) in stream.records:
                        start = start + n
                        ends.append(start)
                    for j, info in enumerate(got):
                        g.append(same_snap(snap(info), snap(infos[j])))
                        g.append(C.bterm(ends[3 + j] <= cut))             # record j lies wholly before the cut
                    if len(got) < r:
                        g.append(C.bterm(ends[3 + len(got)] > cut))       # the next one does not
                cl.claim(c, conj(g) if ok else False, 'T2 the yielded records are exactly the written ones wholly before the cut (%d yielded)' % len(got))
                if part.witnesses < 3:
                    cl.witness(c)
        validate_contract(part, r, with_fluxes)
        R.finish_part(part, ex, cov)
    return run


def validate_contract(part, r, with_fluxes):
    """Real file, real code, every byte offset."""
    ld = loader.real_loader()
    FI = ld.load('sedfitter.fit_info')
    S = ld.load('sedfitter.source.source').Source
    with ld.registered():
        _validate(part, r, with_fluxes, FI, S)


def _validate(part, r, with_fluxes, FI, S):
    infos = []
    for i in range(r):
        info = FI.FitInfo()
        s = S()
        s.name = 'src%d' % i
        s.valid = np.array([1, 4, 2][:2 + i % 2])
        s.flux = np.arange(len(s.valid)) + 1.5
        s.error = np.ones(len(s.valid)) * 0.1
        info.source = s
        n = 1 + i % 3
        info.av = np.arange(n) + 0.25 * i
        info.sc = -np.arange(n) * 1.0
        info.chi2 = np.arange(n) * 2.0 + i
        info.model_name = np.array(['model_%d' % k for k in range(n)], dtype='U30')
        info.model_id = np.arange(n)
        info.model_fluxes = np.arange(n * 2, dtype=float).reshape(n, 2) if with_fluxes else None
        info.meta.model_dir = 'MODELS'
        info.meta.filters = [{'aperture_arcsec': 3.0, 'name': 'f0'}]
        info.meta.extinction_law = None
        infos.append(info)
    d = tempfile.mkdtemp(prefix='c19-')
    import shutil
    try:
        path = os.path.join(d, 'out.fitinfo')
        f = FI.FitInfoFile(path, 'w')
        ends = []
        for info in infos:
            f.write(info)
            f._handle.flush()
            ends.append(f._handle.tell())
        f.close()
        blob = open(path, 'rb').read()
        for cut in range(len(blob)):
            p2 = os.path.join(d, 'cut.fitinfo')
            open(p2, 'wb').write(blob[:cut])
            try:
                g = FI.FitInfoFile(p2, 'r')
                got = list(g)
                g.close()
            except Exception as e:  # noqa: BLE001
                if isinstance(e, (EOFError, pickle.UnpicklingError, AttributeError, ValueError, IndexError, TypeError, KeyError, MemoryError, ImportError)):
                    part.validated += 1
                    continue
                part.validation_failures.append("cut=%d: unexpected %s: %s" % (cut, type(e).__name__, e))
                continue
            want = sum(1 for e_ in ends if e_ <= cut)
            ok = len(got) == want
            for a, b in zip(got, infos):
                ok = ok and np.array_equal(a.av, b.av) and np.array_equal(a.chi2, b.chi2) and list(a.model_name) == list(b.model_name) \
                    and a.source.name == b.source.name and np.array_equal(a.source.flux, b.source.flux)
            if ok:
                part.validated += 1
            else:
                part.validation_failures.append("cut=%d of %d: yielded %d records, %d lie wholly before the cut" % (cut, len(blob), len(got), want))
    finally:
        shutil.rmtree(d, ignore_errors=True)


def configs(tier, seed):
    cfgs = []
    for r in ((1, 2, 3) if tier == 'quick' else (1, 2, 3, 4, 5)):
        cfgs.append(Config('truncate records=%d %s' % (r, 'with predicted fluxes' if r % 2 == 0 else 'no predicted fluxes'),
                           h_trunc(r, r % 2 == 0), 1500))
    if tier != 'quick':
        cfgs.append(Config('truncate records=3 with predicted fluxes', h_trunc(3, True), 1500))
    return cfgs


def replay(rec):
    return False, 'C19 violations are reported from the byte-level validation; no separate replay'
