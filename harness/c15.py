"""C15 -- flux unit conversions are mutually consistent and invertible.

The real convert_flux and SED.write -> SED.read(unit_flux=...) run symbolically (values, frequencies and the
distance are solver variables; the 5 x 5 stored/requested unit pairs are concrete configurations):
  U1  the value returned in the requested unit equals the physical relation  F = nu*F_nu,  L = F*d^2
      applied to the stored value (exact rational unit scales)
  U2  A -> B -> A is the identity;  A -> B -> C equals A -> C
  U3  a unit outside the three families is refused
  U4  SED.read(unit_flux=B) on a file stored in unit A returns the U1 value in every (aperture, wavelength) cell
"""
from __future__ import annotations

import itertools
import os
import tempfile

import numpy as np
import z3

from symx import core as C, symnp, loader, report as R, symunits as su
from .common import Config, mval, close, std_assumptions, conj, sdiv
from . import sedfix
from .sedfix import U, UNITS

ID = 'C15'
NAMES = ['mJy', 'Jy', 'erg/cm2/s', 'erg/s', 'W/m2']
FAMILY = {'mJy': 'fnu', 'Jy': 'fnu', 'erg/cm2/s': 'f', 'W/m2': 'f', 'erg/s': 'l'}


def spec_convert(v, a, b, nu_hz, d_cm):
    """Physical relation in SI with exact rational unit scales."""
    ua, ub = su.unwrap(UNITS[a]()), su.unwrap(UNITS[b]())
    x = v * su._scale(ua)                       # SI value in the stored family
    if FAMILY[a] == 'fnu':
        x = x * nu_hz                           # W/m2
    elif FAMILY[a] == 'l':
        dm = d_cm * su._scale(su._u.cm)
        x = sdiv(x, dm * dm)
    if FAMILY[b] == 'fnu':
        x = sdiv(x, nu_hz)
    elif FAMILY[b] == 'l':
        dm = d_cm * su._scale(su._u.cm)
        x = x * (dm * dm)
    return sdiv(x, su._scale(ub))


def replay_convert(inp):
    import astropy.units as u
    r = sedfix.rio()
    a, b = inp['a'], inp['b']
    nu = np.array(inp['nu'], dtype=float) * u.Hz
    d = inp['d'] * u.cm
    flux = np.array(inp['v'], dtype=float) * sedfix.real_unit(a)
    try:
        out = r.helpers.convert_flux(nu, flux, sedfix.real_unit(b), distance=d)
        if inp.get('c'):
            out = r.helpers.convert_flux(nu, out, sedfix.real_unit(inp['c']), distance=d)
            b = inp['c']
    except Exception as e:  # noqa: BLE001
        return True, {'raised': '%s: %s' % (type(e).__name__, e)}
    want = [float(spec_convert(v, a, b, n, inp['d'])) for v, n in zip(inp['v'], inp['nu'])]
    bad = [(float(o), w) for o, w in zip(out.value, want) if not close(o, w, 1e-9, 0.0)]
    return bool(bad), {'mismatch': bad[:3]}


def h_convert(a, b, c_=None):
    def run(part):
        std_assumptions(part)
        part.bounds = {'stored': a, 'requested': b, 'then': c_, 'values': 'any real flux values, nu > 0, d > 0; 2 spectral points'}
        part.assumptions.add("unit scales are the exact rationals of astropy's float scale factors; astropy's unit algebra runs on concrete shadows")
        io = sedfix.IO()
        ex = C.Explorer()
        cl = R.Claims(part, ex, ID)

        def body(c):
            v = symnp.sym_array('v', 2)
            nu = symnp.sym_array('nu', 2)
            d = C.fresh_real('d')
            c.assume(d > 0)
            for i in range(2):
                c.assume(nu[i] > 0)
            c.vars = (v, nu, d)
            flux = v * UNITS[a]()
            out = io.helpers.convert_flux(nu * U.Hz, flux, UNITS[b](), distance=d * U.cm)
            back = None
            if c_ is not None:
                back = io.helpers.convert_flux(nu * U.Hz, out, UNITS[c_](), distance=d * U.cm)
            return out, back

        with loader.Coverage() as cov:
            for c, out in ex.run(body):
                v, nu, d = c.vars
                inputs = lambda m: {'a': a, 'b': b, 'c': c_, 'v': mval(m, v), 'nu': mval(m, nu), 'd': mval(m, d)}
                if out[0] == 'exc':
                    cl.crash(c, out[1], 'convert_flux %s -> %s' % (a, b), inputs, replay_convert)
                    continue
                o, back = out[1]
                ov = symnp._obj(o.value)
                ok = su.unwrap(o.unit) == su.unwrap(UNITS[b]()) and ov.shape == (2,)
                g = [C.same(ov[i], spec_convert(v[i], a, b, nu[i], d)) for i in range(2)] if ok else [z3.BoolVal(False)]
                cl.claim(c, conj(g), 'U1 %s -> %s obeys F = nu*F_nu, L = F*d^2' % (a, b), inputs, replay_convert)
                if back is not None:
                    bv = symnp._obj(back.value)
                    g = [C.same(bv[i], spec_convert(v[i], a, c_, nu[i], d)) for i in range(2)]
                    lab = 'U2 %s -> %s -> %s is the identity' % (a, b, c_) if c_ == a else 'U2 %s -> %s -> %s equals %s -> %s' % (a, b, c_, a, c_)
                    cl.claim(c, conj(g), lab, inputs, replay_convert)
                cl.witness(c)
        R.finish_part(part, ex, cov)
    return run


def h_refuse(part):
    std_assumptions(part)
    part.bounds = {'unsupported': ['m (target)', 'K (stored)', 'Hz (target)']}
    io = sedfix.IO()
    ex = C.Explorer()
    cl = R.Claims(part, ex, ID)

    def body(c):
        v = symnp.sym_array('v', 2)
        nu = symnp.sym_array('nu', 2)
        res = []
        for (src, tgt) in ((U.mJy, U.m), (U.K, U.mJy), (U.erg / U.s, U.Hz)):
            try:
                io.helpers.convert_flux(nu * U.Hz, v * src, tgt, distance=1.0 * U.cm)
                res.append(False)
            except Exception:  # noqa: BLE001
                res.append(True)
        return res
    for c, out in ex.run(body):
        cl.claim(c, out[0] == 'ok' and all(out[1]), 'U3 units outside the supported families are refused')
        cl.witness(c)
    R.finish_part(part, ex)


def replay_read(inp):
    import astropy.units as u
    r = sedfix.rio()
    s = r.sed.SED()
    s.name = 'model_x'
    s.distance = inp['d'] * u.cm
    w = np.array(inp['w'], dtype=float)
    s.wav = w * u.micron
    s.apertures = np.array(inp['ap'], dtype=float) * u.au
    s.flux = np.array(inp['flux'], dtype=float) * sedfix.real_unit(inp['a'])
    s.error = np.array(inp['err'], dtype=float) * sedfix.real_unit(inp['a'])
    d = tempfile.mkdtemp(prefix='c15-')
    import shutil
    try:
        s.write(os.path.join(d, 's.fits'))
        t = r.sed.SED.read(os.path.join(d, 's.fits'), unit_flux=sedfix.real_unit(inp['b']), order='wav')
    except Exception as e:  # noqa: BLE001
        shutil.rmtree(d, ignore_errors=True)
        return True, {'raised': '%s: %s' % (type(e).__name__, e)}
    shutil.rmtree(d, ignore_errors=True)
    nu = 299792458.0 / (w * 1e-6)
    bad = []
    for a_ in range(len(inp['flux'])):
        for j in range(len(w)):
            want = float(spec_convert(inp['flux'][a_][j], inp['a'], inp['b'], nu[j], inp['d']))
            if not close(t.flux[a_, j].value, want, 1e-6, 0.0):
                bad.append(('flux', a_, j, float(t.flux[a_, j].value), want))
            wante = float(spec_convert(inp['err'][a_][j], inp['a'], inp['b'], nu[j], inp['d']))
            if not close(t.error[a_, j].value, wante, 1e-6, 0.0):
                bad.append(('error', a_, j, float(t.error[a_, j].value), wante))
    return bool(bad), {'mismatch': bad[:3]}


def h_read(a, b, n_ap=2):
    def run(part):
        std_assumptions(part)
        part.bounds = {'stored': a, 'requested': b, 'apertures': n_ap, 'wavelengths': 2, 'distance': 'any d > 0'}
        part.assumptions.add("FITS container stub (see C12)")
        io = sedfix.IO()
        ex = C.Explorer()
        cl = R.Claims(part, ex, ID)

        def body(c):
            s, v = sedfix.make_sed(io, c, n_ap, 2, True, a, 'wav', True)
            d = C.fresh_real('d')
            c.assume(d > 0)
            s.distance = d * U.cm
            v['d'] = d
            c.vars = v
            s.write('/data/s.fits')
            return io.sed.SED.read('/data/s.fits', unit_flux=UNITS[b](), order='wav')

        with loader.Coverage() as cov:
            for c, out in ex.run(body):
                v = c.vars
                inputs = lambda m: {'a': a, 'b': b, 'w': mval(m, v['w']), 'ap': mval(m, v['ap']), 'flux': mval(m, v['flux']),
                                    'err': mval(m, v['err']), 'd': mval(m, v['d'])}
                if out[0] == 'exc':
                    cl.crash(c, out[1], 'SED.read(unit_flux=%s) of a file stored in %s' % (b, a), inputs, replay_read)
                    continue
                t = out[1]
                tf, te = symnp._obj(t.flux.value), symnp._obj(t.error.value)
                ok = su.unwrap(t.flux.unit) == su.unwrap(UNITS[b]()) and tf.shape == (n_ap, 2)
                g = []
                if ok:
                    for j in range(2):
                        nu = sedfix.nu_of(v['w'][j])
                        for a_ in range(n_ap):
                            g.append(C.same(tf[a_, j], spec_convert(v['flux'][a_, j], a, b, nu, v['d'])))
                            g.append(C.same(te[a_, j], spec_convert(v['err'][a_, j], a, b, nu, v['d'])))
                cl.claim(c, conj(g) if ok else False, 'U4 SED.read(unit_flux=%s) of a file stored in %s' % (b, a), inputs, replay_read)
                cl.witness(c)
        R.finish_part(part, ex, cov)
    return run


def configs(tier, seed):
    cfgs = []
    for a in NAMES:
        for b in NAMES:
            cfgs.append(Config('convert %s -> %s -> %s' % (a, b, a), h_convert(a, b, a), 600))
    triples = [('mJy', 'erg/s', 'W/m2'), ('erg/s', 'Jy', 'erg/cm2/s'), ('W/m2', 'mJy', 'erg/s'), ('Jy', 'erg/cm2/s', 'mJy')]
    if tier != 'quick':
        triples = [t for t in itertools.permutations(NAMES, 3)]
    for (a, b, c_) in triples:
        cfgs.append(Config('convert %s -> %s -> %s' % (a, b, c_), h_convert(a, b, c_), 600))
    cfgs.append(Config('refuse unsupported units', h_refuse, 600))
    pairs = [('mJy', 'erg/cm2/s'), ('erg/cm2/s', 'mJy'), ('erg/s', 'Jy'), ('W/m2', 'erg/s'), ('Jy', 'W/m2'), ('mJy', 'mJy')]
    pairs = [(a, b) for a in NAMES for b in NAMES]        # all 25 stored/requested pairs (each is a fraction of a second)
    for (a, b) in pairs:
        cfgs.append(Config('read stored=%s requested=%s' % (a, b), h_read(a, b), 900))
    return cfgs


def replay(rec):
    inp = R.unjson_num(rec['inputs'])
    return replay_read(inp) if 'w' in inp else replay_convert(inp)
