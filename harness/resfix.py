"""Fixture for the result-file harnesses (C08, C09, C10, C17, C18, C19): real FitInfo / FitInfoFile and the
post-processing functions of /repo over the in-memory file system and the pickle contract model."""
from __future__ import annotations

import numpy as np
import z3

from symx import core as C, symnp, loader, symunits as su, symio

U = su.module


class Res:
    def __init__(self, record_len=None, **kw):
        self.L = symio.io_loader(record_len=record_len, **kw)
        self.fs = self.L.fs
        self.fi = self.L.load('sedfitter.fit_info')
        self.src = self.L.load('sedfitter.source.source')
        self.ext = self.L.load('sedfitter.extinction.extinction')
        self.models = self.L.load('sedfitter.models')

    def extinction(self):
        e = self.ext.Extinction()
        e.wav = np.array([0.1, 1.0, 10.0]) * U.micron
        e.chi = np.array([10.0, 1.0, 0.1]) * (U.cm ** 2 / U.g)
        return e

    def meta_values(self, nf=2):
        filters = [{'aperture_arcsec': 3.0, 'name': 'f%d' % i, 'wav': (1.0 + i) * U.micron} for i in range(nf)]
        return 'MODELS', filters, self.extinction()

    def source(self, name, flags, F=None, E=None):
        s = self.src.Source()
        s.name = name
        s.x, s.y = 1.0, 2.0
        s.valid = np.array(flags, dtype=int)
        s.flux = np.ones(len(flags)) if F is None else F
        s.error = np.ones(len(flags)) * 0.1 if E is None else E
        return s

    def info(self, c, tag, names, flags=(1, 4), meta=None, with_fluxes=False, chi2=None, kinded_chi=False, nf=2):
        """A ranked FitInfo with symbolic av/sc/chi2 (chi2 non-decreasing unless given)."""
        n = len(names)
        i = self.fi.FitInfo()
        i.source = self.source('src_' + tag, flags)
        i.av = symnp.sym_array('av_' + tag, n)
        i.sc = symnp.sym_array('sc_' + tag, n)
        if chi2 is None:
            chi2 = symnp.sym_array('chi2_' + tag, n, kinded=kinded_chi)
            raw = symnp._plain(chi2)
            for j in range(n):
                if kinded_chi:
                    x = raw[j]
                    c.assume(C.mk_bool(x.k != C.NINF))
                    c.assume(C.mk_bool(z3.Implies(x.k == C.FIN, x.t >= 0)))
                    if j + 1 < n:
                        y = raw[j + 1]
                        c.assume(C.mk_bool(z3.Or(y.is_nan(), z3.And(z3.Not(x.is_nan()), z3.Or(x._lt(y), x._eq(y))))))
                else:
                    c.assume(raw[j] >= 0)
                    if j + 1 < n:
                        c.assume(raw[j] <= raw[j + 1])
        i.chi2 = chi2
        i.model_name = np.array(list(names), dtype='U30')
        i.model_id = np.arange(n)[::-1] * 2 + 3          # grid indices of the ranked models: deliberately not 0..n-1
        i.model_fluxes = symnp.sym_array('mf_' + tag, (n, nf)) if with_fluxes else None
        md, fl, ex = meta if meta is not None else self.meta_values(nf)
        i.meta.model_dir, i.meta.filters, i.meta.extinction_law = md, fl, ex
        return i

    def write_file(self, path, infos):
        f = self.fi.FitInfoFile(path, 'w')
        for i in infos:
            f.write(i)
        f.close()

    def read_file(self, path):
        f = self.fi.FitInfoFile(path, 'r')
        out = list(f)
        meta = f.meta
        f.close()
        return out, meta

    def parameter_file(self, model_dir, names, columns, order=None, pad=True):
        """parameters.fits in the in-memory FS: MODEL_NAME + numeric columns, rows in `order`."""
        order = list(range(len(names))) if order is None else list(order)
        t = symio.Table()
        nm = [names[i] + ('   ' if pad else '') for i in order]
        t['MODEL_NAME'] = np.array(nm, dtype='S30')
        for cname, vals in columns.items():
            t[cname] = symnp._plain(vals)[order].view(symnp.SymArray) if isinstance(vals, np.ndarray) else np.array(vals)[order]
        hl = symio.HDUList([symio.PrimaryHDU(), symio.BinTableHDU(t)])
        self.fs.files[self.fs.norm(model_dir + '/parameters.fits')] = hl


def snap(info):
    """Value snapshot of a FitInfo (lists of scalars) for comparisons."""
    val = lambda a: None if a is None else [x for x in symnp._obj(su.value_of(a)).reshape(-1)]
    return dict(name=[str(x) for x in info.model_name], mid=[int(x) for x in info.model_id], av=val(info.av), sc=val(info.sc),
                chi2=val(info.chi2), mf=val(info.model_fluxes),
                mf_shape=None if info.model_fluxes is None else tuple(info.model_fluxes.shape),
                src=(info.source.name, [int(v) for v in info.source.valid], val(info.source.flux), val(info.source.error),
                     info.source.x, info.source.y))


def same_snap(a, b):
    """z3 Bool (or False): two snapshots describe the same record."""
    if a['name'] != b['name'] or a['mid'] != b['mid'] or a['mf_shape'] != b['mf_shape']:
        return z3.BoolVal(False)
    if a['src'][0] != b['src'][0] or a['src'][1] != b['src'][1]:
        return z3.BoolVal(False)
    t = []
    for k in ('av', 'sc', 'chi2', 'mf'):
        if (a[k] is None) != (b[k] is None):
            return z3.BoolVal(False)
        if a[k] is not None:
            if len(a[k]) != len(b[k]):
                return z3.BoolVal(False)
            t += [C.same(x, y) for x, y in zip(a[k], b[k])]
    for k in (2, 3):
        if len(a['src'][k]) != len(b['src'][k]):
            return z3.BoolVal(False)
        t += [C.same(x, y) for x, y in zip(a['src'][k], b['src'][k])]
    t += [C.same(a['src'][4], b['src'][4]), C.same(a['src'][5], b['src'][5])]
    return z3.And(t) if t else z3.BoolVal(True)
