"""C10 -- fit() writes one faithful record per eligible source and reads back unchanged.

H10a  the real fit() loop (Fitter construction with Models.read stubbed, Source.from_ascii on token lines,
      n_data filter, Fitter.fit, keep, FitInfoFile.write) over the file / pickle model: the output holds exactly
      one record per line with n_data >= n_data_min (symbolic), in input order, each equal to what Fitter.fit
      returns for that source after the output selector, predicted fluxes present iff requested
H10b  reading the file back (FitInfoFile 'r', real __getstate__/__setstate__ of FitInfo, Source, Extinction)
      returns every record and the shared metadata unchanged
H10c  post-processing accepts a file, one result or a list interchangeably, leaves in-memory results
      unchanged, and a sequence of calls with different selectors gives the same outputs in every form
"""
from __future__ import annotations

import numpy as np
import z3

from symx import core as C, symnp, loader, report as R, symunits as su
from .common import Config, mval, std_assumptions, conj
from . import resfix, fitfix
from .resfix import snap, same_snap
from .c01 import StubExtinction
from .c09 import setup as c09_setup, PARS, parse_numbers, same_tok

ID = 'C10'
U = su.module


class VTok:
    """A column whose parsed value is given (flags: concrete ints; numbers: symbolic reals)."""

    def __init__(self, v):
        self.v = v

    def _symx_token_int(self):
        if isinstance(self.v, (int, np.integer)):
            return int(self.v)
        raise ValueError("invalid literal for int()")

    def _symx_token_float(self):
        return self.v if C.is_sym(self.v) else float(self.v)


class LineObj:
    def __init__(self, cols):
        self.cols = cols

    def split(self):
        return list(self.cols)


class FakeData:
    def __init__(self, lines):
        self.lines = list(lines)
        self.i = 0

    def readline(self):
        if self.i >= len(self.lines):
            return ''
        self.i += 1
        return self.lines[self.i - 1]


def h_fit(flag_lines, nm, output_convolved, form):
    nf = len(flag_lines[0])

    def run(part):
        std_assumptions(part)
        part.bounds = {'lines': [''.join(map(str, f)) for f in flag_lines], 'models': nm, 'filters': nf, 'n_data_min': 'any integer 2..%d' % (nf + 1),
                       'output_selector': form, 'output_convolved': output_convolved}
        part.assumptions |= {"Models.read is stubbed (symbolic grid); the data file is a sequence of token lines (C20 decides the parser)",
                             "file-system / pickle stubs (see C19)", "print formatting of symbolic numbers is silenced"}
        rf = resfix.Res()
        fitmod = rf.L.load('sedfitter.fit')
        rf.L.cut('sedfitter.fitting_routines:linear_regression', 'lr')
        rf.L.cut('sedfitter.fitting_routines:optimal_scaling', 'os')
        rf.L.cut('sedfitter.fitting_routines:chi_squared', 'chi2')
        rf.L.cut('sedfitter.source.source:Source.get_log_fluxes', 'glf')
        ex = C.Explorer(query_timeout_ms=60000)
        cl = R.Claims(part, ex, ID)
        names = ['mod_%s' % 'ab'[i] for i in range(nm)]

        def body(c):
            M = symnp.sym_array('M', (nm, nf))
            for p in np.ndindex(nm, nf):
                c.assume(M[p] > 0)
            k = symnp.sym_array('k', nf)
            c.assume(k[0] != k[1])
            lo, hi = C.fresh_real('lo'), C.fresh_real('hi')
            c.assume(lo <= hi)
            ext = rf.extinction()
            ext.get_av = lambda wav: su.SymQuantity(k, su._u.dimensionless_unscaled)   # decided in C14

            def mk_models():
                m = rf.models.Models()
                m.names = np.array(names)
                m.wavelengths = np.arange(1, nf + 1, dtype=float) * U.micron
                m.fluxes = M * U.mJy
                return m
            fitmod.Models.read = staticmethod(lambda *a, **kw: mk_models())
            lines, srcs = [], []
            for li, flags in enumerate(flag_lines):
                F = symnp.sym_array('F%d' % li, nf)
                E = symnp.sym_array('E%d' % li, nf)
                for j, fl in enumerate(flags):
                    c.assume(F[j] > 0 if fl != 4 else F[j] > -100)
                    c.assume(E[j] > 0)
                    if fl in (2, 3):
                        c.assume(E[j] < 1)
                cols = ['source_%d' % li, VTok(1.5), VTok(-2.5)] + [VTok(int(f)) for f in flags]
                for j in range(nf):
                    cols += [VTok(F[j]), VTok(E[j])]
                lines.append(LineObj(cols))
                srcs.append((flags, F, E))
            nmin = C.SymInt(z3.Int('n_data_min'))
            c.assume(nmin >= 2)          # fewer than two fitted points make the regression singular (outside C01's domain)
            c.assume(nmin <= nf + 1)
            if form == 'F':
                v = C.fresh_real('vsel')
                c.assume(v > 0)
                sel = ('F', v)
            elif form in ('C', 'E'):
                v = C.fresh_real('vsel')         # absolute selectors: may keep no fit at all for a source
                c.assume(v > 0)
                sel = (form, v)
            elif form == 'N':
                sel = ('N', 1)
            else:
                sel = ('A', 0)
            c.vars = dict(srcs=srcs, nmin=nmin, sel=sel, names=names)
            c.printing = True
            try:
                fitmod.fit(FakeData(lines), ['f%d' % i for i in range(nf)], np.ones(nf) * 3.0 * U.arcsec, 'MODELS', '/out/fits.fitinfo',
                           n_data_min=nmin, extinction_law=ext, av_range=(lo, hi), distance_range=np.array([1., 2.]) * U.kpc,
                           output_format=sel, output_convolved=output_convolved)
            finally:
                c.printing = False
            stream = rf.fs.files.get('/out/fits.fitinfo')
            got, meta = ([], None) if stream is None or not stream.records else rf.read_file('/out/fits.fitinfo')
            # the object interface on the same sources
            fitter = fitmod.Fitter(['f%d' % i for i in range(nf)], np.ones(nf) * 3.0 * U.arcsec, 'MODELS', extinction_law=ext,
                                   av_range=(lo, hi), distance_range=np.array([1., 2.]) * U.kpc)
            want = []
            for li, (flags, F, E) in enumerate(srcs):
                nd = sum(f in (1, 4) for f in flags)
                s = rf.source('source_%d' % li, flags, F, E)
                s.x, s.y = 1.5, -2.5
                info = None
                if bool(nmin <= nd):            # already decided by the path of fit(): no new fork
                    info = fitter.fit(s)
                    if not output_convolved:
                        info.model_fluxes = None
                want.append((nd, s.name, info))
            return got, meta, want, ext

        with loader.Coverage() as cov:
            for c, out in ex.run(body):
                v = c.vars
                if out[0] == 'exc':
                    cl.crash(c, out[1], 'fit()')
                    continue
                got, meta, want, ext = out[1]
                nmin = v['nmin']
                # eligibility is decided by the path: compare counts
                expected = [(C.bterm(nmin <= nd), sname, info) for nd, sname, info in want]
                names_got = [i.source.name for i in got]
                ok = names_got == [sname for (cnd, sname, info) in expected if sname in names_got]
                g = []
                for cnd, sname, info in expected:
                    g.append(cnd if sname in names_got else z3.Not(cnd))
                cl.claim(c, conj(g) if ok else False, 'W1 exactly the lines with n_data >= n_data_min are written, in input order (%s)' % names_got)
                g = []
                for rec in got:
                    ref = [info for (_c, sname, info) in expected if sname == rec.source.name][0]
                    if ref is None:
                        g.append(z3.BoolVal(False))
                        continue
                    ref2 = clone_keep(rf, ref, v['sel'])
                    g.append(same_snap(snap(rec), snap(ref2)))
                    g.append(z3.BoolVal((rec.model_fluxes is not None) == bool(output_convolved)))
                cl.claim(c, conj(g), 'W2/B1 every record read back equals Fitter.fit(source) after the output selector')
                if got:
                    m_ok = meta.model_dir == 'MODELS' and len(meta.filters) == nf and all(f['name'] == 'f%d' % i for i, f in enumerate(meta.filters)) \
                        and all(float(f['aperture_arcsec']) == 3.0 for f in meta.filters) and type(meta.extinction_law).__name__ == 'Extinction'
                    g = []
                    if m_ok:
                        for i, f in enumerate(meta.filters):
                            g.append(C.same(f['wav'].to(U.micron).value, float(i + 1)))
                        g += [C.same(a, b) for a, b in zip(symnp._obj(meta.extinction_law.wav.value), symnp._obj(ext.wav.value))]
                        g += [C.same(a, b) for a, b in zip(symnp._obj(meta.extinction_law.chi.value), symnp._obj(ext.chi.value))]
                        g.append(z3.BoolVal(all(r.meta is meta for r in got)))
                    cl.claim(c, conj(g) if m_ok else False, 'B2 metadata (model directory, filters with apertures and wavelengths, extinction law) read back')
                if part.witnesses < 2:
                    cl.witness(c)
        R.finish_part(part, ex, cov)
    return run


def clone_keep(rf, info, sel):
    j = rf.fi.FitInfo()
    j.source = info.source
    for a in ('chi2', 'av', 'sc', 'model_name', 'model_id', 'model_fluxes'):
        val = getattr(info, a)
        setattr(j, a, None if val is None else val.copy())
    j.keep(sel)
    return j


def replay_consumer(inp):
    """Concrete twin of H10c on the real code: write_parameters on an object, twice."""
    import os
    import shutil
    import tempfile
    from astropy.table import Table
    ld = loader.real_loader()
    FI = ld.load('sedfitter.fit_info')
    S = ld.load('sedfitter.source.source').Source
    WP = ld.load('sedfitter.write_parameters').write_parameters
    d = tempfile.mkdtemp(prefix='c10-')
    try:
        with ld.registered():
            names = ['mod_c', 'mod_a', 'mod_b']
            t = Table()
            t['MODEL_NAME'] = np.array(names, dtype='S30')
            t['MASS'] = np.array([1., 2., 3.])
            os.mkdir(os.path.join(d, 'MODELS'))
            t.write(os.path.join(d, 'MODELS', 'parameters.fits'))
            info = FI.FitInfo()
            s = S()
            s.name, s.valid, s.flux, s.error = 'src_a', np.array([1, 4]), np.ones(2), np.ones(2) * 0.1
            info.source = s
            info.chi2, info.av, info.sc = np.array([1., 2., 3.]), np.zeros(3), np.zeros(3)
            info.model_name = np.array(names, dtype='U30')
            info.model_id = np.arange(3)
            info.meta.model_dir, info.meta.filters, info.meta.extinction_law = os.path.join(d, 'MODELS'), [], None
            src = info if inp['form'] == 'object' else [info]
            try:
                WP(src, os.path.join(d, 'o1.txt'), select_format=('N', 1))
                n_after = len(info.chi2)
                WP(src, os.path.join(d, 'o2.txt'), select_format=('A', None))
            except Exception as e:  # noqa: BLE001
                return True, {'raised': '%s: %s' % (type(e).__name__, e)}
            rows2 = len(open(os.path.join(d, 'o2.txt')).read().splitlines()) - 4
            return (n_after != 3 or rows2 != 3), {'fits left in the caller\'s object after select N,1': n_after, 'rows listed by the second call (A)': rows2}
    finally:
        shutil.rmtree(d, ignore_errors=True)


def h_consumers(function, nm=3):
    def run(part):
        std_assumptions(part)
        part.bounds = {'function': function, 'models': nm, 'calls': "('N',1) then ('A',) then ('N',2) on the same results", 'forms': ['file', 'object', 'list']}
        part.assumptions |= {"file-system / pickle / FITS-table stubs (see C12, C19)", "printed numbers are injective sentinels"}
        rf = resfix.Res()
        mod = rf.L.load('sedfitter.' + function)
        fn = getattr(mod, function)
        ex = C.Explorer()
        cl = R.Claims(part, ex, ID)
        ranked = list(range(nm))[::-1]
        sels = [('N', 1), ('A', None), ('N', 2)]

        def call(c, src, sel, tag):
            c.printing = True
            try:
                if function == 'extract_parameters':
                    fn(input=src, output_prefix='/out/%s_' % tag, output_suffix='.txt', select_format=sel)
                    return rf.fs.files['/out/%s_src_a.txt' % tag]
                fn(src, '/out/%s.txt' % tag, select_format=sel)
                return rf.fs.files['/out/%s.txt' % tag]
            finally:
                c.printing = False

        def body(c):
            names, cols, info = c09_setup(rf, c, nm, ranked, tuple(range(nm)))
            before = snap(info)
            rf.write_file('/out/fits.fitinfo', [info])
            texts = {}
            for form in ('file', 'object', 'list'):
                src = '/out/fits.fitinfo' if form == 'file' else (info if form == 'object' else [info])
                texts[form] = [call(c, src, sel, '%s%d' % (form, i)) for i, sel in enumerate(sels)]
            after = snap(info)
            c.vars = (before, after, texts)
            return True

        with loader.Coverage() as cov:
            for c, out in ex.run(body):
                if out[0] == 'exc':
                    cl.crash(c, out[1], function, lambda m: {'form': 'object'}, replay_consumer)
                    continue
                before, after, texts = c.vars
                cl.claim(c, same_snap(before, after), 'C1 %s leaves the in-memory results it was given unchanged' % function,
                         lambda m: {'form': 'object'}, replay_consumer)
                g = []
                for i in range(len(sels)):
                    ref = [parse_numbers(c, ln) for ln in texts['file'][i].splitlines()]
                    for form in ('object', 'list'):
                        oth = [parse_numbers(c, ln) for ln in texts[form][i].splitlines()]
                        if len(ref) != len(oth) or any(len(a) != len(b) for a, b in zip(ref, oth)):
                            g.append(z3.BoolVal(False))
                            continue
                        for a, b in zip(ref, oth):
                            g += [same_tok(x, y) for x, y in zip(a, b)]
                cl.claim(c, conj(g), 'C2 %s: a sequence of calls with different selectors gives the same outputs for file / object / list' % function,
                         lambda m: {'form': 'object'}, replay_consumer)
                cl.witness(c)
        R.finish_part(part, ex, cov)
    return run


def configs(tier, seed):
    q = tier == 'quick'
    cfgs = []
    for lines, form, conv in ([(((1, 4), (1, 0)), 'A', False), (((4, 4), (1, 9), (4, 1)), 'N', True), (((1, 4), (0, 4)), 'F', False)] if q else
                              [(((1, 4), (1, 0)), 'A', False), (((4, 4), (1, 9), (4, 1)), 'N', True), (((1, 4), (0, 4)), 'F', False),
                               (((1, 4), (1, 0), (4, 4), (9, 9)), 'A', True), (((1, 1), (4, 4)), 'F', True)]):
        cfgs.append(Config('fit() lines=%s select=%s convolved=%s' % ('/'.join(''.join(map(str, f)) for f in lines), form, conv),
                           h_fit(lines, 2, conv, form), 3000))
    # absolute selectors (a source may keep no fit at all: its record is still written)
    for lines, form, conv in ([(((1, 4), (4, 4)), 'C', False)] if q else [(((1, 4), (4, 4)), 'C', False), (((1, 4), (4, 4)), 'E', True), (((1, 4), (1, 0), (4, 1)), 'C', True)]):
        cfgs.append(Config('fit() one model lines=%s select=%s convolved=%s' % ('/'.join(''.join(map(str, f)) for f in lines), form, conv),
                           h_fit(lines, 1, conv, form), 3000))
    for function in ('write_parameters', 'write_parameter_ranges', 'extract_parameters'):
        cfgs.append(Config('consumers %s' % function, h_consumers(function), 1500))
    return cfgs


def replay(rec):
    return replay_consumer(R.unjson_num(rec['inputs']))
