"""Fixture shared by the fit-level harnesses (C01, C02b, C03, C04, C08, C11): builds real Source and
Models objects of /repo around symbolic payloads and provides the independent specification of the
documented data transform, the weighted regression and chi^2."""
from __future__ import annotations

import math

import numpy as np
import z3

from symx import core as C, symnp, loader, symunits as su
from .common import sdiv

LN10 = float(np.log(10.))
FITTED = (1, 4)


class Fit:
    """One loader + the classes needed to run Models.fit symbolically."""

    def __init__(self, cuts=True, **loader_kw):
        self.L = loader.Loader(**loader_kw)
        self.models_mod = self.L.load('sedfitter.models')
        self.source_mod = self.L.load('sedfitter.source.source')
        self.fr = self.L.load('sedfitter.fitting_routines')
        self.fit_info = self.L.load('sedfitter.fit_info')
        if cuts:
            self.L.cut('sedfitter.fitting_routines:linear_regression', 'lr')
            self.L.cut('sedfitter.fitting_routines:optimal_scaling', 'os')
            self.L.cut('sedfitter.fitting_routines:chi_squared', 'chi2')
            self.L.cut('sedfitter.source.source:Source.get_log_fluxes', 'glf')

    def source(self, flags, flux, error, name='src'):
        s = self.source_mod.Source()
        s.name = name
        s.x = 0.0
        s.y = 0.0
        s.valid = np.array(flags, dtype=int)
        s.flux = flux
        s.error = error
        return s

    def models(self, names, fluxes, wavelengths=None, distances=None, logd=None, extended=None):
        u = su.module
        m = self.models_mod.Models()
        m.names = np.array(names)
        nf = fluxes.shape[-1]
        m.wavelengths = (np.arange(1, nf + 1, dtype=float) if wavelengths is None else wavelengths) * u.micron
        if distances is not None:
            m.distances = distances * u.kpc
            m.logd = logd
        m.fluxes = fluxes * u.mJy
        if extended is not None:
            m.extended = extended
        return m


def real_fit():
    """The same classes over the real numpy/astropy (replay)."""
    ld = loader.real_loader()
    ns = type('Real', (), {})()
    ns.L = ld
    ns.models_mod = ld.load('sedfitter.models')
    ns.source_mod = ld.load('sedfitter.source.source')
    ns.fit_info = ld.load('sedfitter.fit_info')
    return ns


_REAL = {}


def real():
    if 'r' not in _REAL:
        _REAL['r'] = real_fit()
    return _REAL['r']


def real_source(flags, flux, error, name='src'):
    r = real()
    s = r.source_mod.Source()
    s.name = name
    s.x = 0.0
    s.y = 0.0
    s.valid = np.array(flags, dtype=int)
    s.flux = np.array(flux, dtype=float)
    s.error = np.array(error, dtype=float)
    return s


def real_models(names, fluxes, distances=None, extended=None):
    import astropy.units as u
    r = real()
    m = r.models_mod.Models()
    m.names = np.array(names)
    fluxes = np.array(fluxes, dtype=float)
    m.wavelengths = np.arange(1, fluxes.shape[-1] + 1, dtype=float) * u.micron
    if distances is not None:
        m.distances = np.array(distances, dtype=float) * u.kpc
        m.logd = np.log10(np.array(distances, dtype=float))
    m.fluxes = fluxes * u.mJy
    if extended is not None:
        m.extended = extended
    return m


# ----------------------------------------------------------------------------
# independent specification (documented transform; works on floats and on symbolic values)

def slog10(x):
    # the same routine the numpy shim uses for concrete values (numpy's log10, not math.log10: they can differ by an ulp)
    return C.s_log10(x) if (C.is_sym(x) or C.has_ctx()) else float(np.log10(np.float64(x)))


def spec_transform(flag, F, E):
    """(weight, log_flux, log_error-or-confidence) of one data point per the data-format page."""
    if flag == 1:
        ratio = sdiv(E, F)
        y = slog10(F) - 0.5 * ratio * ratio / LN10
        e = abs(ratio) / LN10
        return sdiv(1.0, e * e), y, e
    if flag == 4:
        return sdiv(1.0, E * E), F, E
    if flag in (2, 3):
        return 0.0, slog10(F), E
    return 0.0, None, None


def penalty(conf):
    """-2 ln(1 - c) with the code's infinity rule (c == 1 -> 1e30)."""
    if C.is_sym(conf):
        return -2.0 * C.s_log(1.0 - conf)
    if conf >= 1.0:
        return 1.e30
    return -2.0 * math.log(1.0 - conf)


class Moments:
    """Weighted moments of the 2-parameter problem  min sum_S w (r - a*k + 2*s)^2  for one model."""

    def __init__(self, w, r, k, fitted):
        self.M11 = self.M12 = self.M22 = self.C1 = self.C2 = 0.0
        for j in fitted:
            self.M11 = self.M11 + w[j] * k[j] * k[j]
            self.M12 = self.M12 + w[j] * k[j] * (-2.0)
            self.M22 = self.M22 + w[j] * 4.0
            self.C1 = self.C1 + w[j] * r[j] * k[j]
            self.C2 = self.C2 + w[j] * r[j] * (-2.0)
        self.det = self.M11 * self.M22 - self.M12 * self.M12

    def a_star(self):
        return sdiv(self.M22 * self.C1 - self.M12 * self.C2, self.det)

    def s_given(self, a):
        return sdiv(self.C2 - a * self.M12, self.M22)


def spec_chi2(flags, w, y, conf, L, k, a, s, distance_mode=False):
    """sum_S w (y - L - a k + 2 s)^2 + limit penalties at (a, s); forks on the side of each limit."""
    tot = 0.0
    for j, fl in enumerate(flags):
        if distance_mode:
            pred = L[j] + a * k[j]
        else:
            pred = L[j] + a * k[j] - 2.0 * s
        if fl in FITTED:
            d = y[j] - pred
            tot = tot + w[j] * d * d
        elif fl == 2:
            if pred < y[j]:
                tot = tot + penalty(conf[j])
        elif fl == 3:
            if pred > y[j]:
                tot = tot + penalty(conf[j])
    return tot


# ----------------------------------------------------------------------------
# scenario builder shared by C01/C02/C03/C04/C08/C11

def conc_array(rng, shape, lo=0.1, hi=10.0):
    """Concrete stand-in for sym_array (translator validation: the shims run on plain floats)."""
    a = np.empty(shape if isinstance(shape, tuple) else (shape,), dtype=object)
    for pos in np.ndindex(*a.shape):
        a[pos] = float(rng.uniform(lo, hi))
    return a.view(symnp.SymArray)


class Scenario:
    """Inputs of one fit: photometry, model grid (2-D or 3-D), extinction pattern, A_V range."""

    def __init__(self, c, flags, nm, nd=None, conf_kind='open', rng=None, tag='', k=None, grid=None, rng_k=None, names=None):
        self.flags = tuple(flags)
        self.nf = nf = len(flags)
        self.nm, self.nd = nm, nd
        self.names = ['mod_%s' % 'abcdefgh'[i] for i in range(nm)] if names is None else list(names)
        self.fitted = [j for j, fl in enumerate(flags) if fl in FITTED]
        shape = (nm, nf) if nd is None else (nm, nd, nf)
        if rng is not None:
            self.F = conc_array(rng, nf)
            self.E = conc_array(rng, nf, 0.05, 0.9)
            self.M = conc_array(rng, shape) if grid is None else grid
            self.k = conc_array(rng, nf, -1.0, -0.01) if k is None else k
            self.lo, self.hi = sorted([float(rng.uniform(0, 6)), float(rng.uniform(0, 6))])
            if nd is not None:
                self.dist = np.sort(rng.uniform(0.5, 5.0, nd))
                self.logd = np.log10(self.dist)
        else:
            self.F = symnp.sym_array('F' + tag, nf)
            self.E = symnp.sym_array('E' + tag, nf)
            for j, fl in enumerate(flags):
                if fl == 4:
                    c.assume(self.E[j] > 0)
                elif fl in (2, 3):
                    c.assume(self.F[j] > 0)
                    if conf_kind == 'open':
                        c.assume(self.E[j] > 0)
                        c.assume(self.E[j] < 1)
                else:
                    c.assume(self.F[j] > 0)
                    c.assume(self.E[j] > 0)
            if grid is None:
                self.M = symnp.sym_array('M' + tag, shape)
                for p in np.ndindex(*shape):
                    c.assume(self.M[p] > 0)
            else:
                self.M = grid
            if k is None:
                self.k = symnp.sym_array('k' + tag, nf)
                if nd is None:
                    c.assume(C.mk_bool(z3.Or([self.k[i].t != self.k[j].t
                                              for i in self.fitted for j in self.fitted if i < j])))
                else:
                    c.assume(C.mk_bool(z3.Or([self.k[i].t != 0 for i in self.fitted])))
            else:
                self.k = k
            self.lo, self.hi = C.fresh_real('lo' + tag), C.fresh_real('hi' + tag)
            c.assume(self.lo <= self.hi)
            if nd is not None:
                self.logd = symnp.sym_array('logd' + tag, nd)
                for i in range(nd - 1):
                    c.assume(self.logd[i] < self.logd[i + 1])
        for j, fl in enumerate(flags):
            if fl in (2, 3) and conf_kind in ('zero', 'one'):
                symnp._plain(self.E)[j] = 0.0 if conf_kind == 'zero' else 1.0

    def objects(self, fx, extended=None):
        src = fx.source(self.flags, self.F, self.E)
        if self.nd is None:
            mod = fx.models(self.names, self.M)
        else:
            mod = fx.models(self.names, self.M, distances=np.arange(1, self.nd + 1, dtype=float), logd=self.logd,
                            extended=extended)
        return src, mod

    def fit(self, fx, extended=None):
        src, mod = self.objects(fx, extended)
        self.src, self.mod = src, mod
        return mod.fit(src, self.k, -2.0 * symnp.ones(self.nf), self.lo, self.hi)

    def inputs(self, m):
        from .common import mval
        d = {'flags': list(self.flags), 'names': self.names, 'F': mval(m, self.F), 'E': mval(m, self.E),
             'M': mval(m, self.M), 'k': mval(m, self.k), 'lo': mval(m, self.lo), 'hi': mval(m, self.hi)}
        if self.nd is not None:
            d['logd'] = mval(m, self.logd)
        return d

    # spec quantities
    def transform(self):
        tr = [spec_transform(fl, self.F[j], self.E[j]) for j, fl in enumerate(self.flags)]
        return [t[0] for t in tr], [t[1] for t in tr]


def real_fit_inputs(inp, extended=None):
    """Run the real Models.fit on a concrete input dict (as produced by Scenario.inputs)."""
    flags = inp['flags']
    src = real_source(flags, inp['F'], inp['E'])
    M = np.array(inp['M'], dtype=float)
    if M.ndim == 2:
        mod = real_models(inp['names'], M)
    else:
        mod = real_models(inp['names'], M, distances=10. ** np.array(inp['logd'], dtype=float), extended=extended)
        mod.logd = np.array(inp['logd'], dtype=float)
    info = mod.fit(src, np.array(inp['k'], dtype=float), -2. * np.ones(len(flags)), inp['lo'], inp['hi'])
    return info, src, mod


def float_rows_2d(inp):
    """Independent float oracle: per model (av, sc, chi2, predicted log fluxes) for a 2-D grid."""
    flags, F, E, k, lo, hi = inp['flags'], inp['F'], inp['E'], inp['k'], inp['lo'], inp['hi']
    nf = len(flags)
    tr = [spec_transform(fl, F[j], E[j]) for j, fl in enumerate(flags)]
    w = [t[0] for t in tr]
    y = [t[1] for t in tr]
    fitted = [j for j, fl in enumerate(flags) if fl in FITTED]
    out = []
    for mrow in inp['M']:
        L = [math.log10(v) for v in mrow]
        r = [None if y[j] is None else y[j] - L[j] for j in range(nf)]
        mo = Moments(w, r, k, fitted)
        a = mo.a_star()
        a = lo if a < lo else (hi if a > hi else a)
        s = mo.s_given(a)
        chi = spec_chi2(flags, w, y, E, L, k, a, s)
        out.append((a, s, chi, [L[j] + a * k[j] - 2.0 * s for j in range(nf)]))
    return out


def float_rows_3d(inp):
    """Per model: list over distances of (av_d, chi2_d, predicted) and the index of the best distance."""
    flags, F, E, k, lo, hi = inp['flags'], inp['F'], inp['E'], inp['k'], inp['lo'], inp['hi']
    nf = len(flags)
    tr = [spec_transform(fl, F[j], E[j]) for j, fl in enumerate(flags)]
    w = [t[0] for t in tr]
    y = [t[1] for t in tr]
    fitted = [j for j, fl in enumerate(flags) if fl in FITTED]
    out = []
    for mgrid in inp['M']:
        per = []
        for drow in mgrid:
            L = [math.log10(v) for v in drow]
            num = sum(w[j] * (y[j] - L[j]) * k[j] for j in fitted)
            den = sum(w[j] * k[j] * k[j] for j in fitted)
            a = num / den
            a = lo if a < lo else (hi if a > hi else a)
            chi = spec_chi2(flags, w, y, E, L, k, a, 0.0, distance_mode=True)
            per.append((a, chi, [L[j] + a * k[j] for j in range(nf)]))
        best = min(range(len(per)), key=lambda i: per[i][1])
        out.append((per, best))
    return out
