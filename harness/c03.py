"""C03 -- data flags mean what the data-format page says.

Relational harness: two real fits inside ONE symbolic exploration (cut variables are hash-consed on
their defining term, so forks are shared), then equality of the outputs.
  (a) flags 0 / 9: the second source carries arbitrary extended reals (any real, +-inf, NaN) at those
      positions  =>  identical av, sc, chi2, ranking, predicted fluxes
  (b) flags 2 / 3 never enter the least-squares solution: changing limit values and confidences leaves
      every model's (av, sc) unchanged  (what a limit costs is decided in C01/P3)
  (c) confidence 0 is equivalent to flag 0
  (d) confidence 1: a model on the forbidden side of a limit has chi2 >= 1e30
  (e) a flag-4 point carrying (log10 F - 0.5 (s/F)^2/ln10, |s/F|/ln10) fits identically to the flag-1 point (F, s)
Both fitting modes (2-D grids; 3-D distance grids).
"""
from __future__ import annotations

import copy
import itertools

import numpy as np
import z3

from symx import core as C, symnp, loader, report as R, symunits as su
from .common import Config, mval, close, std_assumptions, conj
from . import fitfix
from .fitfix import Scenario, spec_transform, FITTED

ID = 'C03'
F14 = 'F14-flag9-nonpositive-flux'


def snapshot(info):
    val = lambda a: symnp._obj(su.value_of(a))
    return dict(av=list(val(info.av)), sc=list(val(info.sc)), chi2=list(val(info.chi2)),
                name=[str(x) for x in info.model_name], mid=[int(x) for x in info.model_id],
                mf=[list(r) for r in val(info.model_fluxes)])


def same_info(a, b, fields=('av', 'sc', 'chi2', 'mf')):
    if a['name'] != b['name'] or a['mid'] != b['mid']:
        return None
    t = []
    for f in fields:
        if f == 'mf':
            for ra, rb in zip(a['mf'], b['mf']):
                t += [C.same(x, y) for x, y in zip(ra, rb)]
        else:
            t += [C.same(x, y) for x, y in zip(a[f], b[f])]
    return conj(t)


def variant(sc, flags=None, F=None, E=None):
    v = copy.copy(sc)
    if flags is not None:
        v.flags = tuple(flags)
        v.fitted = [j for j, fl in enumerate(flags) if fl in FITTED]
    if F is not None:
        v.F = F
    if E is not None:
        v.E = E
    return v


def replay_pair(inp):
    """inp: {'A': inputs, 'B': inputs, 'mode': ...}: both through the real Models.fit."""
    try:
        ia, _, _ = fitfix.real_fit_inputs(inp['A'])
    except Exception as e:  # noqa: BLE001
        return True, {'raised in A': '%s: %s' % (type(e).__name__, e)}
    mode = inp['mode']
    if mode == 'd':
        rows = fitfix.float_rows_2d(inp['A']) if np.ndim(inp['A']['M']) == 2 else None
        bad = []
        for i, mid in enumerate(int(x) for x in ia.model_id):
            A = inp['A']
            for j, fl in enumerate(A['flags']):
                if fl not in (2, 3):
                    continue
                pred = float(ia.model_fluxes[i][j])
                yj = np.log10(A['F'][j])
                viol = pred < yj if fl == 2 else pred > yj
                if viol and not float(ia.chi2[i]) >= 1e30:
                    bad.append((i, j, float(ia.chi2[i])))
        return bool(bad), {'rows violating a certain limit with chi2 < 1e30': bad[:3]}
    try:
        ib, _, _ = fitfix.real_fit_inputs(inp['B'])
    except Exception as e:  # noqa: BLE001
        return True, {'raised in B': '%s: %s' % (type(e).__name__, e)}
    diffs = []
    if mode == 'b':
        da = {int(m): (float(a), float(s)) for m, a, s in zip(ia.model_id, ia.av, ia.sc)}
        db = {int(m): (float(a), float(s)) for m, a, s in zip(ib.model_id, ib.av, ib.sc)}
        for m in da:
            if not (close(da[m][0], db[m][0], 1e-7, 1e-9) and close(da[m][1], db[m][1], 1e-7, 1e-9)):
                diffs.append((m, da[m], db[m]))
        return bool(diffs), {'per-model (av, sc) differ': diffs[:3]}
    for f in ('av', 'sc', 'chi2', 'model_fluxes'):
        xa, xb = np.asarray(getattr(ia, f), dtype=float), np.asarray(getattr(ib, f), dtype=float)
        if not np.allclose(xa, xb, rtol=1e-7, atol=1e-9, equal_nan=True):
            diffs.append((f, xa.tolist(), xb.tolist()))
    if [str(x) for x in ia.model_name] != [str(x) for x in ib.model_name]:
        diffs.append(('names', [str(x) for x in ia.model_name], [str(x) for x in ib.model_name]))
    return bool(diffs), {'outputs differ': diffs[:2]}


def h_rel(mode, flags, nm, nd=None):
    flags = tuple(flags)
    nf = len(flags)

    def run(part):
        std_assumptions(part)
        part.bounds = {'claim': mode, 'filters': nf, 'models': nm, 'distances': nd, 'flags': ''.join(map(str, flags))}
        part.assumptions |= {"log10/ln uninterpreted (hash-consed per argument); IEEE special values by kinds at the ignored positions",
                             "Models.fit called directly with an arbitrary real extinction pattern and scale pattern -2"}
        fx = fitfix.Fit()
        rec = None
        if mode == 'b' and nd is not None:
            from .c02 import observe
            rec = observe(fx)      # per-distance least-squares A_V at the boundary of optimal_scaling
        opts = dict(query_timeout_ms=60000)
        if mode == 'a':
            opts.update(kind_mode='fork', log_mode='ieee')
        ex = C.Explorer(**opts)
        cl = R.Claims(part, ex, ID)
        conf_kind = {'c': 'zero', 'd': 'one'}.get(mode, 'open')

        def body(c):
            A = Scenario(c, flags, nm, nd, conf_kind)
            B = None
            if mode == 'a':
                F2, E2 = A.F.copy(), A.E.copy()
                for j, fl in enumerate(flags):
                    if fl in (0, 9):
                        symnp._plain(F2)[j] = C.fresh_real('F2[%d]' % j, kinded=True)
                        symnp._plain(E2)[j] = C.fresh_real('E2[%d]' % j, kinded=True)
                B = variant(A, F=F2, E=E2)
            elif mode == 'b':
                F2, E2 = A.F.copy(), A.E.copy()
                for j, fl in enumerate(flags):
                    if fl in (2, 3):
                        f2, e2 = C.fresh_real('F2[%d]' % j), C.fresh_real('E2[%d]' % j)
                        c.assume(f2 > 0)
                        c.assume(e2 > 0)
                        c.assume(e2 < 1)
                        symnp._plain(F2)[j], symnp._plain(E2)[j] = f2, e2
                B = variant(A, F=F2, E=E2)
            elif mode == 'c':
                B = variant(A, flags=[0 if fl in (2, 3) else fl for fl in flags])
            elif mode == 'e':
                F2, E2 = A.F.copy(), A.E.copy()
                fl2 = list(flags)
                for j, fl in enumerate(flags):
                    if fl == 1:
                        _w, y, e = spec_transform(1, A.F[j], A.E[j])
                        symnp._plain(F2)[j], symnp._plain(E2)[j] = y, e
                        fl2[j] = 4
                B = variant(A, flags=fl2, F=F2, E=E2)
            c.vars = (A, B)
            if rec is not None:
                rec.clear()
            ia = A.fit(fx)
            ib = B.fit(fx) if B is not None else None
            return ia, ib

        with loader.Coverage() as cov:
            for c, out in ex.run(body):
                A, B = c.vars
                inputs = lambda m: {'A': A.inputs(m), 'B': None if B is None else B.inputs(m), 'mode': mode}
                if out[0] == 'exc':
                    cl.crash(c, out[1], 'fit', inputs, replay_pair)
                    continue
                sa = snapshot(out[1][0])
                if mode == 'd':
                    goals = []
                    for i, mid in enumerate(sa['mid']):
                        for j, fl in enumerate(flags):
                            if fl not in (2, 3):
                                continue
                            pred = sa['mf'][i][j]
                            yj = fitfix.slog10(A.F[j])
                            viol = (pred < yj) if fl == 2 else (pred > yj)
                            goals.append(z3.Implies(C.bterm(viol), C.bterm(C.real(sa['chi2'][i]) >= 1e30)))
                    cl.claim(c, conj(goals), '(d) confidence 1: a violating model has chi2 >= 1e30', inputs, replay_pair)
                    continue
                sb = snapshot(out[1][1])
                if mode == 'b' and rec is not None:
                    ua, ub = (symnp._obj(su.value_of(x)).reshape(-1) for x in rec['os'][-2:])
                    cl.claim(c, conj([C.same(x, y) for x, y in zip(ua, ub)]),
                             '(b) limits never enter the least-squares solution (per-distance A_V; the reported distance may change with the penalties)')
                    continue
                if mode == 'b':
                    da = {m: (a, s) for m, a, s in zip(sa['mid'], sa['av'], sa['sc'])}
                    db = {m: (a, s) for m, a, s in zip(sb['mid'], sb['av'], sb['sc'])}
                    cl.claim(c, conj([z3.And(C.same(da[m][0], db[m][0]), C.same(da[m][1], db[m][1])) for m in da]),
                             '(b) limits never enter the least-squares solution', inputs, replay_pair)
                    continue
                g = same_info(sa, sb)
                label = {'a': '(a) flag 0/9 values never influence the fit', 'c': '(c) confidence 0 == flag 0',
                         'e': '(e) flag 4 with transformed values == flag 1'}[mode]
                excuses = []
                if mode == 'a':
                    bad9 = []
                    for j, fl in enumerate(flags):
                        if fl == 9:
                            f2, e2 = symnp._plain(B.F)[j], symnp._plain(B.E)[j]
                            bad9.append(z3.Not(z3.And(f2.k == C.FIN, f2.t > 0, e2.k == C.FIN)))
                    if bad9:
                        excuses = [(F14, z3.Or(bad9))]
                cl.claim(c, g if g is not None else False, label, inputs, replay_pair, excuses=excuses)
                if part.witnesses < 2:
                    cl.witness(c)
        R.finish_part(part, ex, cov)
    return run


def configs(tier, seed):
    q = tier == 'quick'
    cfgs = []
    # (a)  (a flag-9 point forks over the kind and sign of both its values: kept to small configurations)
    va = [(1, 0, 4), (1, 9, 4), (0, 4, 4, 0), (0, 1, 2, 4)] if q else \
        [v for v in itertools.product((0, 1, 2, 3, 4, 9), repeat=3) if sum(f in FITTED for f in v) >= 2 and (0 in v or 9 in v)] + \
        [(0, 4, 4, 9), (9, 1, 2, 4), (1, 0, 0, 4, 3)]
    for v in va:
        cfgs.append(Config('(a) ignored 2-D nm=1 flags=%s' % ''.join(map(str, v)), h_rel('a', v, 1), 3000))
    for v in ([(4, 0), (0, 1, 4)] if q else [(4, 0), (0, 1, 4), (4, 9), (1, 0, 3)]):
        cfgs.append(Config('(a) ignored 3-D nm=1 nd=2 flags=%s' % ''.join(map(str, v)), h_rel('a', v, 1, 2), 3000))
    cfgs.append(Config('(a) ignored 2-D nm=2 flags=140', h_rel('a', (1, 4, 0), 2), 3000))
    if not q:
        pass
        # '(a) ignored 2-D nm=2 flags=149' ran into its 6000 s limit (every fork of the fork-mode kinds times two models): not run
    # (b) (c) (d) (e)
    lim = [(1, 4, 2), (4, 3, 1), (2, 4, 4, 3)] if q else \
        [v for v in itertools.product((1, 2, 3, 4), repeat=3) if sum(f in FITTED for f in v) >= 2 and (2 in v or 3 in v)] + [(2, 4, 4, 3)]
    for mode in 'bcd':
        for v in lim:
            cfgs.append(Config('(%s) 2-D nm=1 flags=%s' % (mode, ''.join(map(str, v))), h_rel(mode, v, 1), 1500))
        if mode != 'd':     # (d) with two models: the solver does not decide chi2 >= 1e30 through the ranking within the time limit
            cfgs.append(Config('(%s) 2-D nm=2 flags=142' % mode, h_rel(mode, (1, 4, 2), 2), 3000))
        for v in ([(4, 2)] + ([(1, 3, 4)] if mode != 'd' else []) if q else [(4, 2), (1, 3, 4), (3, 4), (4, 2, 3)]):
            cfgs.append(Config('(%s) 3-D nm=1 nd=2 flags=%s' % (mode, ''.join(map(str, v))), h_rel(mode, v, 1, 2), 3000))
    ve = [(1, 4), (1, 1, 4), (1, 2, 1), (1, 9, 1, 3)] if q else \
        [v for v in itertools.product((1, 2, 3, 4, 9, 0), repeat=3) if sum(f in FITTED for f in v) >= 2 and 1 in v] + [(1, 9, 1, 3)]
    for v in ve:
        cfgs.append(Config('(e) 2-D nm=1 flags=%s' % ''.join(map(str, v)), h_rel('e', v, 1), 1500))
    cfgs.append(Config('(e) 2-D nm=2 flags=114', h_rel('e', (1, 1, 4), 2), 3000))
    cfgs.append(Config('(e) 3-D nm=1 nd=2 flags=11', h_rel('e', (1, 1), 1, 2), 3000))
    return cfgs


def replay(rec):
    return replay_pair(R.unjson_num(rec['inputs']))
