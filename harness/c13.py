"""C13 -- aperture interpolation: exact at tabulated radii, linear between, clamped above, refused below.

The real ConvolvedFluxes.interpolate, SED.interpolate and SED.interpolate_variable run on symbolic tables:
  A1  ConvolvedFluxes.interpolate: flux and error equal the linear interpolant at each requested radius
      (tabulated value at a node, largest-aperture value beyond the table), requests in the table's unit or
      another length unit; names / order / central wavelength untouched; a single-aperture table is repeated
  A2  a request below the smallest tabulated radius raises
  A3  SED.interpolate with bare numbers in AU (what plot() passes) or quantities: same interpolant per wavelength
  A4  SED.interpolate_variable: at every filter wavelength the value equals the interpolant at that filter's aperture
"""
from __future__ import annotations

import numpy as np
import z3

from symx import core as C, symnp, loader, report as R, symunits as su, symio
from .common import Config, mval, close, std_assumptions, conj, sdiv
from . import sedfix
from .sedfix import U
from .c02 import spec_interp_clamped

ID = 'C13'
F12 = 'F12-interpolate-variable-clamp'


def table(c, na, name='ap'):
    ap = symnp.sym_array(name, na)
    c.assume(ap[0] > 0)
    for i in range(na - 1):
        c.assume(ap[i] < ap[i + 1])
    return ap


# ----------------------------------------------------------------------------
# replay

def replay_conv(inp):
    import astropy.units as u
    r = sedfix.rio()
    nm = len(inp['flux'])
    cf = r.cf.ConvolvedFluxes(wavelength=1.0 * u.micron, model_names=np.array(['m%d' % i for i in range(nm)]),
                              apertures=np.array(inp['ap'], dtype=float) * u.au,
                              flux=np.array(inp['flux'], dtype=float) * u.mJy, error=np.array(inp['err'], dtype=float) * u.mJy)
    req = np.array(inp['req'], dtype=float) * getattr(u, inp['req_unit'])
    fac = getattr(u, inp['req_unit']).to(u.au)
    below = len(inp['ap']) > 1 and any(x * fac < inp['ap'][0] * (1 - 1e-12) for x in inp['req'])
    try:
        out = cf.interpolate(req)
    except Exception as e:  # noqa: BLE001
        return (not below), {'raised': '%s: %s' % (type(e).__name__, e), 'below_table': below}
    if below:
        return True, {'accepted a request below the table': True}
    bad = []
    for m in range(nm):
        for i, x in enumerate(inp['req']):
            want = float(spec_interp_clamped(inp['ap'], inp['flux'][m], x * fac))
            wante = float(spec_interp_clamped(inp['ap'], inp['err'][m], x * fac))
            if not close(out.flux[m, i].value, want, 1e-7, 1e-12) or not close(out.error[m, i].value, wante, 1e-7, 1e-12):
                bad.append((m, i, float(out.flux[m, i].value), want))
    return bool(bad), {'mismatch': bad[:3]}


def _real_sed(inp):
    import astropy.units as u
    r = sedfix.rio()
    s = r.sed.SED()
    s.name = 'x'
    s.distance = 1 * u.kpc
    s.wav = np.array(inp['w'], dtype=float) * u.micron
    s.apertures = (np.array(inp['ap'], dtype=float) * u.au).to(getattr(u, inp.get('table_unit', 'au')))
    s.flux = np.array(inp['flux'], dtype=float) * u.mJy
    s.error = np.array(inp['flux'], dtype=float) * u.mJy
    return s


def replay_sed(inp):
    import astropy.units as u
    s = _real_sed(inp)
    req = np.array(inp['req'], dtype=float)
    if inp.get('as_quantity'):
        req = (req * u.au).to(getattr(u, inp.get('req_unit', 'au')))
    below = len(inp['ap']) > 1 and any(x < inp['ap'][0] * (1 - 1e-12) for x in inp['req'])
    try:
        out = s.interpolate(req)
    except Exception as e:  # noqa: BLE001
        return (not below), {'raised': '%s: %s' % (type(e).__name__, e), 'below_table': below}
    out = np.asarray(getattr(out, 'value', out), dtype=float)
    bad = []
    for j in range(len(inp['w'])):
        col = [inp['flux'][a][j] for a in range(len(inp['ap']))]
        for i, x in enumerate(inp['req']):
            want = float(spec_interp_clamped(inp['ap'], col, x))
            if not close(out[j, i], want, 1e-7, 1e-12):
                bad.append((j, i, float(out[j, i]), want))
    return bool(bad), {'mismatch': bad[:3]}


def replay_var(inp):
    s = _real_sed(inp)
    fw = np.array([inp['w'][i] for i in inp['filter_idx']], dtype=float)
    try:
        out = s.interpolate_variable(fw, np.array(inp['req'], dtype=float))
    except Exception as e:  # noqa: BLE001
        return True, {'raised': '%s: %s' % (type(e).__name__, e)}
    out = np.asarray(getattr(out, 'value', out), dtype=float)
    bad = []
    for fi, j in enumerate(inp['filter_idx']):
        col = [inp['flux'][a][j] for a in range(len(inp['ap']))]
        want = float(spec_interp_clamped(inp['ap'], col, inp['req'][fi]))
        if not close(out[j], want, 1e-6, 1e-12):
            bad.append((j, float(out[j]), want))
    return bool(bad), {'mismatch': bad[:3]}


# ----------------------------------------------------------------------------

def h_conv(na, nm, nreq, req_unit='AU', below=False):
    def run(part):
        std_assumptions(part)
        part.bounds = {'function': 'ConvolvedFluxes.interpolate', 'apertures': na, 'models': nm, 'requests': nreq,
                       'request_unit': req_unit, 'below_table': below}
        part.assumptions.add("scipy interp1d(kind='linear') contract; unit conversions by exact rational scales")
        io = sedfix.IO()
        ex = C.Explorer(query_timeout_ms=60000)
        cl = R.Claims(part, ex, ID)
        names = np.array(['m%d' % i for i in range(nm)])
        fac = su.exact_factor(getattr(su._u, req_unit), su._u.au)

        def body(c):
            ap = table(c, na)
            fl = symnp.sym_array('flux', (nm, na))
            er = symnp.sym_array('err', (nm, na))
            req = symnp.sym_array('req', nreq)
            for i in range(nreq):
                c.assume(req[i] > 0)
                if na > 1:
                    if below and i == 0:
                        c.assume(req[i] * fac < ap[0])
                    elif not below:
                        c.assume(req[i] * fac >= ap[0])
            wv = C.fresh_real('wav')
            c.assume(wv > 0)
            cf = io.cf.ConvolvedFluxes(wavelength=wv * U.micron, model_names=names, apertures=ap * U.au,
                                       flux=fl * U.mJy, error=er * U.mJy)
            c.vars = dict(ap=ap, fl=fl, er=er, req=req.copy(), wv=wv)
            return cf.interpolate(req * getattr(U, req_unit)), cf

        with loader.Coverage() as cov:
            for c, out in ex.run(body):
                v = c.vars
                inputs = lambda m: {'ap': mval(m, v['ap']), 'flux': mval(m, v['fl']), 'err': mval(m, v['er']), 'req': mval(m, v['req']),
                                    'req_unit': req_unit}
                if out[0] == 'exc':
                    if below and 'too small' in str(out[1]):
                        cl.claim(c, True, 'A2 a request below the smallest radius is refused', inputs, replay_conv)
                        if part.witnesses < 2:
                            cl.witness(c)
                        continue
                    cl.crash(c, out[1], 'ConvolvedFluxes.interpolate', inputs, replay_conv)
                    continue
                if below:
                    cl.claim(c, False, 'A2 a request below the smallest radius must be refused', inputs, replay_conv)
                    continue
                o, cf = out[1]
                of, oe = symnp._obj(o.flux.to(U.mJy).value), symnp._obj(o.error.to(U.mJy).value)
                ok = of.shape == (nm, nreq) and [str(x) for x in o.model_names] == list(names)
                g = []
                if ok:
                    ap = list(v['ap'])
                    for m_ in range(nm):
                        for i in range(nreq):
                            q = v['req'][i] * fac
                            g.append(C.same(of[m_, i], spec_interp_clamped(ap, list(v['fl'][m_]), q)))
                            g.append(C.same(oe[m_, i], spec_interp_clamped(ap, list(v['er'][m_]), q)))
                    g.append(C.same(o.central_wavelength.to(U.micron).value, v['wv']))
                    # the table itself is untouched
                    g += [C.same(a, b) for a, b in zip(symnp._obj(cf.flux.value).reshape(-1), symnp._obj(v['fl']).reshape(-1))]
                    g += [C.same(a, b) for a, b in zip(symnp._obj(cf.apertures.value), v['ap'])]
                cl.claim(c, conj(g) if ok else False, 'A1 interpolant: exact at nodes, linear between, clamped above; names/wavelength/table untouched',
                         inputs, replay_conv)
                if part.witnesses < 2:
                    cl.witness(c)
        R.finish_part(part, ex, cov)
    return run


def make_sym_sed(io, c, na, n_wav, table_unit='au'):
    s = io.sed.SED()
    s.name = 'x'
    s.distance = 1.0 * U.kpc
    w = sedfix.monotone_wavs(c, n_wav, True)
    s.wav = w * U.micron
    ap = table(c, na)
    if table_unit == 'au':
        s.apertures = ap * U.au
    else:
        # the same radii stored in another length unit (exact rational scale)
        s.apertures = (ap * su.exact_factor(su._u.au, getattr(su._u, table_unit))) * getattr(U, table_unit)
    fl = symnp.sym_array('flux', (na, n_wav))
    s.flux = fl * U.mJy
    s.error = fl * U.mJy
    return s, w, ap, fl


def h_sed(na, n_wav, nreq, as_quantity=False, below=False, table_unit='au', req_unit='au'):
    def run(part):
        std_assumptions(part)
        part.bounds = {'function': 'SED.interpolate', 'apertures': na, 'wavelengths': n_wav, 'requests': nreq,
                       'request': ('Quantity in %s' % req_unit) if as_quantity else 'bare numbers in AU (as plot() passes)', 'below_table': below,
                       'table_unit': table_unit}
        io = sedfix.IO()
        ex = C.Explorer(query_timeout_ms=60000)
        cl = R.Claims(part, ex, ID)

        def body(c):
            s, w, ap, fl = make_sym_sed(io, c, na, n_wav, table_unit)
            req = symnp.sym_array('req', nreq)
            for i in range(nreq):
                c.assume(req[i] > 0)
                if na > 1:
                    if below and i == 0:
                        c.assume(req[i] < ap[0])
                    elif not below:
                        c.assume(req[i] >= ap[0])
            c.vars = dict(w=w, ap=ap, fl=fl, req=req.copy())
            if as_quantity and req_unit != 'au':
                return s.interpolate((req * su.exact_factor(su._u.au, getattr(su._u, req_unit))) * getattr(U, req_unit))
            return s.interpolate(req * U.au if as_quantity else req)

        with loader.Coverage() as cov:
            for c, out in ex.run(body):
                v = c.vars
                inputs = lambda m: {'w': mval(m, v['w']), 'ap': mval(m, v['ap']), 'flux': mval(m, v['fl']), 'req': mval(m, v['req']),
                                    'as_quantity': as_quantity, 'table_unit': table_unit, 'req_unit': req_unit}
                if out[0] == 'exc':
                    if below and 'too small' in str(out[1]):
                        cl.claim(c, True, 'A2 a request below the smallest radius is refused', inputs, replay_sed)
                        if part.witnesses < 2:
                            cl.witness(c)
                        continue
                    cl.crash(c, out[1], 'SED.interpolate', inputs, replay_sed)
                    continue
                if below:
                    cl.claim(c, False, 'A2 a request below the smallest radius must be refused', inputs, replay_sed)
                    continue
                o = symnp._obj(su.value_of(out[1]))
                ok = o.shape == (n_wav, nreq)
                g = []
                if ok:
                    ap = list(v['ap'])
                    for j in range(n_wav):
                        col = [v['fl'][a, j] for a in range(na)]
                        for i in range(nreq):
                            g.append(C.same(o[j, i], spec_interp_clamped(ap, col, v['req'][i])))
                cl.claim(c, conj(g) if ok else False, 'A3 SED.interpolate: per wavelength the linear interpolant (clamped above)', inputs, replay_sed)
                if part.witnesses < 2:
                    cl.witness(c)
        R.finish_part(part, ex, cov)
    return run


def h_var(na, n_wav, filter_idx, beyond=False):
    nfil = len(filter_idx)

    def run(part):
        std_assumptions(part)
        part.bounds = {'function': 'SED.interpolate_variable', 'apertures': na, 'wavelengths': n_wav, 'beyond_table': beyond,
                       'filters_at_sed_wavelengths': list(filter_idx), 'request': 'bare numbers in AU, at or above the smallest radius'}
        part.assumptions.add("log10 / 10** uninterpreted inverses (10**log10 x = x), monotone on the atoms that occur")
        io = sedfix.IO()
        ex = C.Explorer(query_timeout_ms=60000, log_monotone=True, pow10_monotone=True)
        cl = R.Claims(part, ex, ID)

        def body(c):
            s, w, ap, fl = make_sym_sed(io, c, na, n_wav)
            req = symnp.sym_array('req', nfil)
            for i in range(nfil):
                if na > 1:
                    c.assume(req[i] >= ap[0])
                    if beyond and i == 0:
                        c.assume(req[i] > ap[na - 1])
                    elif not beyond:
                        c.assume(req[i] <= ap[na - 1])
                else:
                    c.assume(req[i] > 0)
            fw = symnp.SymArray([w[j] for j in filter_idx])
            c.vars = dict(w=w, ap=ap, fl=fl, req=req.copy())
            return s.interpolate_variable(fw, req)

        with loader.Coverage() as cov:
            for c, out in ex.run(body):
                v = c.vars
                inputs = lambda m: {'w': mval(m, v['w']), 'ap': mval(m, v['ap']), 'flux': mval(m, v['fl']), 'req': mval(m, v['req']),
                                    'filter_idx': list(filter_idx)}
                exc = [(F12, z3.Or([C.bterm(v['req'][fi] > v['ap'][na - 1]) for fi in range(nfil)]))] if na > 1 else []
                if out[0] == 'exc':
                    cl.crash(c, out[1], 'SED.interpolate_variable', inputs, replay_var, excuses=exc)
                    continue
                o = symnp._obj(su.value_of(out[1]))
                ok = o.shape == (n_wav,)
                g = []
                if ok:
                    ap = list(v['ap'])
                    for fi, j in enumerate(filter_idx):
                        col = [v['fl'][a, j] for a in range(na)]
                        g.append(C.same(o[j], spec_interp_clamped(ap, col, v['req'][fi])))
                cl.claim(c, conj(g) if ok else False, 'A4 at each filter wavelength: interpolant at that filter\'s aperture', inputs, replay_var,
                         excuses=exc)
                if part.witnesses < 2:
                    cl.witness(c)
        R.finish_part(part, ex, cov)
    return run


def configs(tier, seed):
    q = tier == 'quick'
    cfgs = []
    for na in ((2, 3, 4) if q else (2, 3, 4, 5, 6, 8)):
        cfgs.append(Config('conv na=%d nm=%d nreq=2 AU' % (na, 2 if na < 4 else 1), h_conv(na, 2 if na < 4 else 1, 2), 3000))
    cfgs.append(Config('conv na=3 nm=1 nreq=2 request in pc', h_conv(3, 1, 2, 'pc'), 3000))
    cfgs.append(Config('conv na=2 nm=1 nreq=1 request in cm', h_conv(2, 1, 1, 'cm'), 3000))
    cfgs.append(Config('conv na=1 (single aperture repeated) nm=2 nreq=2', h_conv(1, 2, 2), 600))
    cfgs.append(Config('conv na=3 below the table', h_conv(3, 1, 2, below=True), 600))
    for na in ((2, 3) if q else (2, 3, 4)):
        cfgs.append(Config('SED.interpolate na=%d n_wav=2 nreq=2 bare AU' % na, h_sed(na, 2, 2), 3000))
    cfgs.append(Config('SED.interpolate na=2 n_wav=2 nreq=1 Quantity', h_sed(2, 2, 1, as_quantity=True), 3000))
    cfgs.append(Config('SED.interpolate na=2 n_wav=2 nreq=1 table in cm, Quantity in AU', h_sed(2, 2, 1, as_quantity=True, table_unit='cm'), 3000))
    cfgs.append(Config('SED.interpolate na=2 n_wav=2 nreq=1 table in pc, Quantity in cm', h_sed(2, 2, 1, as_quantity=True, table_unit='pc', req_unit='cm'), 3000))
    cfgs.append(Config('SED.interpolate na=2 n_wav=2 nreq=1 table in cm, bare AU numbers', h_sed(2, 2, 1, table_unit='cm'), 3000))
    cfgs.append(Config('SED.interpolate na=2 below the table, table in pc, Quantity in AU', h_sed(2, 2, 2, as_quantity=True, below=True, table_unit='pc'), 600))
    cfgs.append(Config('SED.interpolate na=1 (single aperture) n_wav=2 nreq=2', h_sed(1, 2, 2), 600))
    cfgs.append(Config('SED.interpolate na=2 below the table', h_sed(2, 2, 2, below=True), 600))
    cfgs.append(Config('interpolate_variable na=2 n_wav=3 filters at 0,2', h_var(2, 3, (0, 2)), 3000))
    cfgs.append(Config('interpolate_variable na=3 n_wav=2 filters at 0,1', h_var(3, 2, (0, 1)), 3000))
    cfgs.append(Config('interpolate_variable na=1 n_wav=2', h_var(1, 2, (0, 1)), 600))
    cfgs.append(Config('interpolate_variable na=2 n_wav=3 filters at 2,0 (unsorted)', h_var(2, 3, (2, 0)), 3000))
    cfgs.append(Config('interpolate_variable na=2 n_wav=2 filters at 1,0 (unsorted)', h_var(2, 2, (1, 0)), 3000))
    cfgs.append(Config('interpolate_variable na=2 n_wav=2 a request beyond the table', h_var(2, 2, (0, 1), beyond=True), 1500))
    if not q:
        cfgs.append(Config('interpolate_variable na=3 n_wav=3 filters at 2,0 (unsorted)', h_var(3, 3, (2, 0)), 3000))
        cfgs.append(Config('interpolate_variable na=2 n_wav=3 filters at 0,1,2', h_var(2, 3, (0, 1, 2)), 3000))
    return cfgs


def replay(rec):
    inp = R.unjson_num(rec['inputs'])
    if 'filter_idx' in inp:
        return replay_var(inp)
    if 'w' in inp:
        return replay_sed(inp)
    return replay_conv(inp)
