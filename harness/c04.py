"""C04 -- results are ranked by chi^2 and every row describes one model.

The real Models.fit + FitInfo.sort run symbolically in both fitting modes.  FitInfo.sort is observed
(its inputs are snapshotted by the harness; nothing in /repo is edited).  Decided on every path:
  R1  model_id is a permutation of the package's models; model_name[i] == names[model_id[i]]
  R2  chi2 is non-decreasing down the table (NaN last)
  R3  av, sc, chi2, model_fluxes of row i are the pre-sort quantities of model model_id[i]
  R4  pre-sort predicted fluxes of model m  ==  log10 flux of m  +  A_V_m * k  (- 2*scale_m; or, in
      distance mode, taken at the grid distance whose log10 is the reported scale, where chi2_m is
      attained and is minimal over the grid)
Grids with exact ties (equal model rows) and infinite chi^2 (resolved models) are separate configurations.
"""
from __future__ import annotations

import numpy as np
import z3

from symx import core as C, symnp, loader, report as R, symunits as su
from .common import Config, mval, close, std_assumptions, conj
from . import fitfix
from .fitfix import Scenario

ID = 'C04'


def observe_sort(fx):
    FI = fx.fit_info.FitInfo
    orig = FI.__dict__['sort']
    snaps = []

    def sort(self):
        snaps.append(dict(av=_l(self.av), sc=_l(self.sc), chi2=_l(self.chi2), name=[str(x) for x in self.model_name],
                          mf=None if self.model_fluxes is None else [_l(r) for r in symnp._obj(su.value_of(self.model_fluxes))]))
        return orig(self)
    FI.sort = sort
    return snaps


def _l(a):
    return list(symnp._obj(su.value_of(a)).reshape(-1)) if np.ndim(a) <= 1 else [list(r) for r in symnp._obj(su.value_of(a))]


def _le_nanlast(x, y):
    x, y = C.real(x), C.real(y)
    return z3.Or(y.is_nan(), z3.And(z3.Not(x.is_nan()), z3.Or(x._lt(y), x._eq(y))))


def replay_rows(inp):
    ext = None
    if inp.get('extended') is not None:
        ext = np.array(inp['extended'], dtype=bool)
    try:
        info, src, mod = fitfix.real_fit_inputs(inp, extended=ext)
    except Exception as e:  # noqa: BLE001
        return True, {'raised': '%s: %s' % (type(e).__name__, e)}
    nm = len(inp['names'])
    bad = []
    ids = [int(x) for x in info.model_id]
    if sorted(ids) != list(range(nm)):
        bad.append(('not a permutation', ids))
    chi = np.asarray(info.chi2, dtype=float)
    for i in range(nm - 1):
        if not (np.isnan(chi[i + 1]) or chi[i] <= chi[i + 1]):
            bad.append(('not ranked', chi.tolist()))
    threed = np.ndim(inp['M']) == 3
    rows = fitfix.float_rows_3d(inp) if threed else fitfix.float_rows_2d(inp)
    for i, mid in enumerate(ids):
        if str(info.model_name[i]) != inp['names'][mid]:
            bad.append(('name', i))
        if threed:
            per, best = rows[mid]
            if ext is not None and ext[mid].any():
                continue  # rows with resolved distances are compared structurally only
            a, c2, pred = per[best]
            s = inp['logd'][best]
        else:
            a, s, c2, pred = rows[mid]
        for nme, got, want in (('av', info.av[i], a), ('sc', info.sc[i], s), ('chi2', info.chi2[i], c2)):
            if not close(got, want, 1e-6, 1e-7):
                bad.append((nme, i, float(got), want))
        if not np.allclose(np.asarray(info.model_fluxes[i], dtype=float), pred, rtol=1e-6, atol=1e-8):
            bad.append(('fluxes', i))
    return bool(bad), {'mismatch': bad[:4]}


def h_rows(flags, nm, nd=None, tie=False, extended=None, conf_kind='open', mask_assign='fork', names=None):
    def run(part):
        std_assumptions(part)
        part.bounds = {'filters': len(flags), 'models': nm, 'distances': nd, 'flags': ''.join(map(str, flags)),
                       'ties': 'two models share identical fluxes' if tie else 'generic (ties possible at measure zero)',
                       'extended': extended, 'model_names': names or 'in increasing alphabetical order'}
        part.assumptions |= {"numpy.argsort: NaN last, stable for these sizes (insertion sort); numpy.argmin: first minimum",
                             "log10/ln uninterpreted (hash-consed per argument)"}
        fx = fitfix.Fit()
        snaps = observe_sort(fx)
        ex = C.Explorer(query_timeout_ms=60000, mask_assign=mask_assign)
        cl = R.Claims(part, ex, ID)

        def body(c, rng=None):
            del snaps[:]
            sc = Scenario(c, flags, nm, nd, conf_kind, rng, names=names)
            if tie and nm >= 2:
                raw = symnp._plain(sc.M)
                raw[1] = raw[0].copy() if raw.ndim > 1 else raw[0]
            extarr = None
            if extended is not None:
                extarr = np.zeros((nm, nd, len(flags)), dtype=bool)
                for (m, d) in extended:
                    extarr[m, d, :] = True
            c.vars = sc
            sc.extarr = extarr
            return sc.fit(fx, extended=extarr)

        with loader.Coverage() as cov:
            for c, out in ex.run(body):
                sc = c.vars
                inputs = lambda m: dict(sc.inputs(m), extended=None if sc.extarr is None else sc.extarr.tolist())
                if out[0] == 'exc':
                    cl.crash(c, out[1], 'fit', inputs, replay_rows)
                    continue
                info = out[1]
                pre = snaps[-1]
                ids = [int(x) for x in info.model_id]
                ok = sorted(ids) == list(range(nm)) and [str(x) for x in info.model_name] == [sc.names[i] for i in ids] \
                    and pre['name'] == sc.names
                cl.claim(c, bool(ok), 'R1 every model exactly once; names follow model_id', inputs, replay_rows)
                chi = _l(info.chi2)
                cl.claim(c, conj([_le_nanlast(chi[i], chi[i + 1]) for i in range(nm - 1)]),
                         'R2 chi2 non-decreasing (NaN last)', inputs, replay_rows)
                av, s_, mf = _l(info.av), _l(info.sc), _l(info.model_fluxes)
                terms = []
                for i, mid in enumerate(ids):
                    terms += [C.same(av[i], pre['av'][mid]), C.same(s_[i], pre['sc'][mid]), C.same(chi[i], pre['chi2'][mid])]
                    terms += [C.same(a, b) for a, b in zip(mf[i], pre['mf'][mid])]
                cl.claim(c, conj(terms), 'R3 row i carries the pre-sort av/sc/chi2/fluxes of model model_id[i]', inputs, replay_rows)
                # R4: predicted fluxes of each model
                k = list(symnp._obj(sc.k))
                nf = len(flags)
                if nd is None:
                    terms = []
                    for m in range(nm):
                        for j in range(nf):
                            L = fitfix.slog10(sc.M[m, j])
                            terms.append(C.same(pre['mf'][m][j], L + pre['av'][m] * k[j] - 2.0 * pre['sc'][m]))
                    cl.claim(c, conj(terms), 'R4 predicted = model + A_V*k - 2*scale', inputs, replay_rows)
                else:
                    w, y = sc.transform()
                    for m in range(nm):
                        alts = []
                        for d in range(nd):
                            t = [C.same(pre['sc'][m], sc.logd[d])]
                            for j in range(nf):
                                L = fitfix.slog10(sc.M[m, d, j])
                                t.append(C.same(pre['mf'][m][j], L + pre['av'][m] * k[j]))
                            alts.append(z3.And(t))
                        cl.claim(c, z3.Or(alts), 'R4 predicted = model at the reported grid distance + A_V*k [model %d]' % m,
                                 inputs, replay_rows)
                if part.witnesses < 2:
                    cl.witness(c)
            validate(part, body)
        R.finish_part(part, ex, cov)
    return run


def validate(part, body, n=3):
    for t in range(n):
        rng = np.random.default_rng(1000 + t)
        got = {}

        def conc(c):
            got['info'] = body(c, rng)
            got['sc'] = c.vars
        C.Explorer().explore(conc)
        info, sc = got['info'], got['sc']
        inp = sc.inputs(None)
        try:
            real, _, _ = fitfix.real_fit_inputs(inp, extended=sc.extarr)
        except Exception as e:  # noqa: BLE001
            part.validation_failures.append("real fit raised %s" % e)
            continue
        # order must agree unless the exact chi2 values tie (then rounding noise ranks the real code's rows); values are matched by name
        rn, sn = [str(a) for a in real.model_name], [str(a) for a in info.model_name]
        sch = [x for x in symnp._obj(su.value_of(info.chi2)).tolist()]
        ok = sorted(rn) == sorted(sn) and (rn == sn or len(set(sch)) < len(sch))
        if ok:
            perm = [sn.index(x) for x in rn]
            for a, b in ((real.av, info.av), (real.sc, info.sc), (real.chi2, info.chi2), (real.model_fluxes, info.model_fluxes)):
                bb = np.array(symnp._obj(su.value_of(b)).tolist(), dtype=float)[perm]
                ok = ok and np.allclose(np.asarray(a, dtype=float), bb, rtol=1e-9, atol=1e-12, equal_nan=True)
        if ok:
            part.validated += 1
        else:
            part.validation_failures.append("shimmed vs real Models.fit differ on %s" % (R.jsonable(inp),))


def configs(tier, seed):
    cfgs = []
    q = tier == 'quick'
    for flags in ([(1, 4), (4, 2, 1)] if q else [(1, 4), (4, 2, 1), (1, 1, 3), (4, 9, 4, 0)]):
        for nm in ((2, 3) if q else (2, 3, 4)):
            if nm == 4 and len(flags) > 2:
                continue
            cfgs.append(Config('rows 2-D nm=%d flags=%s' % (nm, ''.join(map(str, flags))), h_rows(flags, nm), 3000))
    # grids whose names are not in alphabetical order (the order of a package's parameter table is arbitrary)
    cfgs.append(Config('rows 2-D nm=3 flags=14 names (m2, m10, m1)', h_rows((1, 4), 3, names=['m2', 'm10', 'm1']), 3000))
    cfgs.append(Config('rows 2-D nm=2 flags=421 names reversed', h_rows((4, 2, 1), 2, names=['zz', 'aa']), 3000))
    cfgs.append(Config('rows 3-D nm=2 nd=2 flags=41 names reversed', h_rows((4, 1), 2, 2, names=['zz', 'aa']), 3000))
    cfgs.append(Config('rows 2-D tie nm=3 flags=14 names reversed', h_rows((1, 4), 3, tie=True, names=['c', 'b', 'a']), 3000))
    cfgs.append(Config('rows 2-D tie nm=2 flags=14', h_rows((1, 4), 2, tie=True), 1500))
    cfgs.append(Config('rows 2-D tie nm=3 flags=14', h_rows((1, 4), 3, tie=True), 3000))
    for flags in ([(4, 1)] if q else [(4, 1), (1, 3, 4)]):
        for nm, nd in ([(2, 2), (1, 3)] if q else [(2, 2), (1, 3), (2, 3), (3, 2)]):
            if len(flags) == 3 and (nm, nd) in ((2, 3), (3, 2)):
                continue          # three points x 6 (model, distance) cells: past the 3000 s limit in fork mode; covered in ite mode below
            cfgs.append(Config('rows 3-D nm=%d nd=%d flags=%s' % (nm, nd, ''.join(map(str, flags))), h_rows(flags, nm, nd), 3000))
        for nm, nd in ([(2, 3)] if q else [(2, 3), (2, 4), (3, 3)]):
            cfgs.append(Config('rows 3-D (clamp as if-then-else term) nm=%d nd=%d flags=%s' % (nm, nd, ''.join(map(str, flags))),
                               h_rows(flags, nm, nd, mask_assign='ite'), 3000))
    cfgs.append(Config('rows 3-D tie nm=2 nd=2', h_rows((4, 1), 2, 2, tie=True), 3000))
    cfgs.append(Config('rows 3-D infinite chi2 (model 0 resolved at every distance)', h_rows((4, 1), 2, 2, extended=[(0, 0), (0, 1)]), 3000))
    cfgs.append(Config('rows 3-D infinite chi2 (model 1 resolved at distance 0)', h_rows((4, 1), 2, 2, extended=[(1, 0)]), 3000))
    if not q:
        cfgs.append(Config('rows 3-D all resolved', h_rows((4, 1), 2, 2, extended=[(0, 0), (0, 1), (1, 0), (1, 1)]), 3000))
    return cfgs


def replay(rec):
    return replay_rows(R.unjson_num(rec['inputs']))
