"""symx.symunits -- stand-in for `astropy.units` whose quantities carry symbolic payloads.

All unit logic (result units, conversion factors, equivalence, physical types,
FITS unit strings and the exceptions astropy raises) is executed by the real
astropy on a concrete *shadow* (a real Quantity of ones of the same shape);
only the numeric payload is symbolic.  Conversion factors are the exact ratio
of the two units' SI scales, so conversions compose to the identity.
"""
from __future__ import annotations

import types
from fractions import Fraction

import numpy as np
import astropy.units as _u
from astropy.units.quantity_helper import converters_and_unit as _cau

from . import core as C
from . import symnp
from .symnp import SymArray, _plain, _obj

_C_SI = 299792458  # m/s, exact


def unwrap(unit):
    if isinstance(unit, SUnit):
        return unit.u
    if isinstance(unit, str):
        return _u.Unit(unit)
    return unit


_rs_cache = {}


def _scale(unit):
    """Exact rational SI scale of a unit, computed structurally through the unit definitions so that
    prefixes are exact (kpc == 1000 pc) and conversions compose to the identity."""
    key = id(unit)
    hit = _rs_cache.get(key)
    if hit is not None and hit[0] is unit:
        return hit[1]
    r = _rscale(unit)
    _rs_cache[key] = (unit, r)
    return r


def _rscale(unit):
    try:
        if isinstance(unit, _u.IrreducibleUnit):
            return Fraction(1)
        if isinstance(unit, _u.CompositeUnit):
            r = Fraction(float(unit.scale))
            for b, p in zip(unit.bases, unit.powers):
                pf = Fraction(p).limit_denominator(1000)
                if pf.denominator != 1:
                    raise ValueError
                r *= _rscale(b) ** int(pf)
            return r
        rep = getattr(unit, 'represents', None)
        if rep is not None and rep is not unit:
            return _rscale(rep)
    except (ValueError, TypeError, AttributeError, RecursionError):
        pass
    return Fraction(float(unit.decompose().scale))


def exact_factor(src, tgt):
    """Exact rational factor for src -> tgt (plain, non-equivalency conversion)."""
    src, tgt = unwrap(src), unwrap(tgt)
    f = src.to(tgt)  # raises UnitConversionError for real if impossible
    r = _scale(src) / _scale(tgt)
    if abs(float(r) - f) <= 1e-9 * abs(f):
        return r
    return Fraction(f)


class Equivalency(list):
    def __init__(self, kind, arg=None):
        super().__init__()
        self.kind = kind
        self.arg = arg


def spectral():
    return Equivalency('spectral')


def spectral_density(nu):
    return Equivalency('spectral_density', nu)


class SUnit:
    __array_ufunc__ = None
    __array_priority__ = 100000

    def __init__(self, unit):
        self.u = unwrap(unit)

    # unit algebra
    def __mul__(self, o):
        if isinstance(o, SUnit):
            return SUnit(self.u * o.u)
        return SymQuantity(o, self.u) if not isinstance(o, SymQuantity) else SymQuantity(o.value, o._unit * self.u)

    def __rmul__(self, o):
        if isinstance(o, SymQuantity):
            return SymQuantity(o.value, o._unit * self.u)
        if isinstance(o, list):
            o = np.array(o)
        return SymQuantity(o, self.u)

    def __truediv__(self, o):
        if isinstance(o, SUnit):
            return SUnit(self.u / o.u)
        if isinstance(o, SymQuantity):
            return SymQuantity(1.0 / o.value, self.u / o._unit)
        return SymQuantity(1.0 / o, self.u)

    def __rtruediv__(self, o):
        if isinstance(o, SymQuantity):
            return SymQuantity(o.value, o._unit / self.u)
        return SymQuantity(o, self.u ** -1)

    def __pow__(self, p):
        return SUnit(self.u ** p)

    def to(self, other, value=1.0, equivalencies=[]):
        f = float(exact_factor(self.u, other))
        if C.is_sym(value) or isinstance(value, np.ndarray) and value.dtype == object:
            return value * exact_factor(self.u, other)
        return value * f

    def is_equivalent(self, other, equivalencies=[]):
        if isinstance(other, (tuple, list)):
            return any(self.is_equivalent(o) for o in other)
        return self.u.is_equivalent(unwrap(other))

    @property
    def physical_type(self):
        return self.u.physical_type

    def to_string(self, format='generic', **kw):
        return self.u.to_string(format=format, **kw)

    def decompose(self):
        return SUnit(self.u.decompose())

    def __eq__(self, o):
        if o is None:
            return False
        try:
            return self.u == unwrap(o)
        except Exception:  # noqa: BLE001
            return False

    def __ne__(self, o):
        return not self.__eq__(o)

    def __hash__(self):
        return hash(self.u)

    def __repr__(self):
        return 'SUnit(%r)' % (self.u,)

    def __str__(self):
        return str(self.u)

    def __format__(self, spec):
        return format(self.u, spec)


def _shadow(x):
    """Concrete stand-in for unit logic: a real Quantity of ones / the bare operand itself."""
    if isinstance(x, SymQuantity):
        return _u.Quantity(np.ones(x.shape), x._unit)
    if isinstance(x, SUnit):
        return x.u
    if isinstance(x, np.ndarray):
        if x.dtype == object:
            o = np.ones(x.shape)
            flat = _plain(x).reshape(-1)
            of = o.reshape(-1)
            for i, e in enumerate(flat):
                if not C.is_sym(e):
                    try:
                        of[i] = float(e)
                    except (TypeError, ValueError):
                        of[i] = 1.0
            return o
        return x
    if C.is_sym(x):
        if isinstance(x, C.SymReal) and x.k is not None:
            return 1.0
        return 1.0
    return x


def value_of(x):
    if isinstance(x, SymQuantity):
        return x.value
    if isinstance(x, _u.Quantity):
        return x.value
    return x


def common_values(a, b):
    """Payloads of a and b expressed in a's unit (either may be bare)."""
    ua = a._unit if isinstance(a, SymQuantity) else None
    ub = b._unit if isinstance(b, SymQuantity) else None
    if ua is not None and ub is not None:
        return a.value, b.to(ua).value
    if ua is None and ub is None:
        return a, b
    # one is bare: let astropy judge on the shadows (raises UnitConversionError for dimensional units)
    _cau(np.less, '__call__', _shadow(a), _shadow(b))
    return value_of(a), value_of(b)


class SymQuantity(SymArray):
    __array_priority__ = 10000

    def __new__(cls, value, unit=None, dtype=None, copy=True, **kw):
        if isinstance(value, SymQuantity):
            if unit is None:
                return value
            return value.to(unit)
        if isinstance(value, _u.Quantity):
            if unit is None:
                unit = value.unit
            value = value.to(unwrap(unit)).value
        if isinstance(value, (list, tuple)):
            value = symnp.array(value) if symnp._deep_has_sym(value) else np.array(value, dtype=float)
        if isinstance(value, np.ndarray):
            base = _plain(value)
            if base.dtype != object:
                if base.dtype.kind not in 'fiub':
                    raise TypeError("The value must be a valid Python or Numpy numeric type.")
                base = base.astype(float).astype(object)
            obj = base.view(cls)
        else:
            if not (C.is_sym(value) or C.is_conc_num(value)):
                raise TypeError("The value must be a valid Python or Numpy numeric type.")
            a = np.empty((), dtype=object)
            a[()] = float(value) if C.is_conc_num(value) and not isinstance(value, Fraction) else value
            obj = a.view(cls)
        obj._unit = unwrap(unit) if unit is not None else _u.dimensionless_unscaled
        return obj

    def __array_finalize__(self, obj):
        self._unit = getattr(obj, '_unit', _u.dimensionless_unscaled)

    # -- basic protocol
    @property
    def unit(self):
        return SUnit(self._unit)

    @unit.setter
    def unit(self, v):
        self._unit = unwrap(v)

    @property
    def value(self):
        r = _plain(self)
        if r.ndim == 0:
            return r[()]
        return r.view(SymArray)

    @property
    def isscalar(self):
        return self.ndim == 0

    def to(self, unit, equivalencies=[]):
        tgt = unwrap(unit)
        src = self._unit
        if src.is_equivalent(tgt):
            f = exact_factor(src, tgt)
            if f == 1:
                return SymQuantity(_plain(self).copy(), tgt)
            return SymQuantity(symnp.apply_ufunc(np.multiply, _plain(self), f), tgt)
        kind = getattr(equivalencies, 'kind', None)
        if kind == 'spectral':
            if (src.is_equivalent(_u.m) and tgt.is_equivalent(_u.Hz)) or \
               (src.is_equivalent(_u.Hz) and tgt.is_equivalent(_u.m)):
                # nu = c / lambda  (both directions)
                k = Fraction(_C_SI) / (_scale(src) * _scale(tgt))
                return SymQuantity(symnp.apply_ufunc(np.true_divide, k, _plain(self)), tgt)
        if kind == 'spectral_density':
            nu = equivalencies.arg
            nu_hz = nu.to(_u.Hz).value if isinstance(nu, SymQuantity) else nu
            if src.is_equivalent(_u.Jy) and tgt.is_equivalent(_u.W / _u.m ** 2):
                k = _scale(src) / _scale(tgt)
                return SymQuantity(symnp.apply_ufunc(np.multiply, symnp.apply_ufunc(np.multiply, _plain(self), nu_hz), k), tgt)
            if src.is_equivalent(_u.W / _u.m ** 2) and tgt.is_equivalent(_u.Jy):
                k = _scale(src) / _scale(tgt)
                return SymQuantity(symnp.apply_ufunc(np.multiply, symnp.apply_ufunc(np.true_divide, _plain(self), nu_hz), k), tgt)
        # let astropy raise its own error
        src.to(tgt)
        raise C.Inconclusive("unit conversion %s -> %s not modelled" % (src, tgt))

    def to_value(self, unit=None, equivalencies=[]):
        if unit is None:
            return self.value
        return self.to(unit, equivalencies).value

    def decompose(self):
        return self.to(self._unit.decompose().bases and self._unit.decompose() / self._unit.decompose().scale
                       or _u.dimensionless_unscaled)

    # -- ufuncs through shadows
    def __array_ufunc__(self, ufunc, method, *inputs, out=None, **kw):
        if out is not None:
            res = self.__array_ufunc__(ufunc, method, *inputs, **kw)
            tgt = out[0]
            if isinstance(tgt, SymQuantity) and isinstance(res, SymQuantity):
                res = res.to(tgt._unit)
            np.ndarray.__setitem__(_plain(tgt), Ellipsis, _plain(res) if isinstance(res, np.ndarray) else res)
            return tgt
        shadows = [_shadow(i) for i in inputs]
        if method == '__call__':
            converters, unit = _cau(ufunc, method, *shadows)
        elif method == 'reduce':
            converters, unit = _cau(ufunc, method, *shadows)
        else:
            raise C.Inconclusive("quantity ufunc method %s" % method)
        vals = []
        for i, (inp, conv) in enumerate(zip(inputs, converters)):
            v = value_of(inp)
            if isinstance(v, np.ndarray):
                v = _plain(v)
            if conv:
                f = conv(1.0)
                src = inp._unit if isinstance(inp, SymQuantity) else _u.dimensionless_unscaled
                fx = None
                for j, other in enumerate(inputs):
                    if j != i and isinstance(other, SymQuantity):
                        try:
                            r = _scale(src) / _scale(other._unit)
                            if src.is_equivalent(other._unit) and abs(float(r) - f) <= 1e-9 * abs(f):
                                fx = r
                                break
                        except Exception:  # noqa: BLE001
                            pass
                if fx is None and unit is not None:
                    try:
                        r = _scale(src) / _scale(unit)
                        if abs(float(r) - f) <= 1e-9 * abs(f):
                            fx = r
                    except Exception:  # noqa: BLE001
                        pass
                if fx is None:
                    fx = Fraction(f)
                v = symnp.apply_ufunc(np.multiply, v, fx)
                if isinstance(v, np.ndarray):
                    v = _plain(v)
            vals.append(v)
        if method == '__call__':
            kw.pop('dtype', None)
            res = symnp.apply_ufunc(ufunc, *vals)
        else:
            res = symnp.reduce_ufunc(ufunc, vals[0], kw.get('axis', 0), kw.get('keepdims', False))
        if unit is None:
            return res
        return SymQuantity(res, unit)

    def _binop(self, uf, o, rev=False):
        if isinstance(o, SUnit):
            return NotImplemented
        a, b = (o, self) if rev else (self, o)
        return self.__array_ufunc__(uf, '__call__', a, b)

    def __lt__(self, o):
        return self._binop(np.less, o)

    def __le__(self, o):
        return self._binop(np.less_equal, o)

    def __gt__(self, o):
        return self._binop(np.greater, o)

    def __ge__(self, o):
        return self._binop(np.greater_equal, o)

    def __eq__(self, o):
        if o is None:
            return False
        try:
            return self._binop(np.equal, o)
        except _u.UnitsError:
            return False

    def __ne__(self, o):
        if o is None:
            return True
        try:
            return self._binop(np.not_equal, o)
        except _u.UnitsError:
            return True

    __hash__ = None

    def __mul__(self, o):
        if isinstance(o, SUnit):
            return SymQuantity(self.value, self._unit * o.u)
        return self._binop(np.multiply, o)

    def __rmul__(self, o):
        return self._binop(np.multiply, o, True)

    def __truediv__(self, o):
        if isinstance(o, SUnit):
            return SymQuantity(self.value, self._unit / o.u)
        return self._binop(np.true_divide, o)

    def __rtruediv__(self, o):
        return self._binop(np.true_divide, o, True)

    def __add__(self, o):
        return self._binop(np.add, o)

    def __radd__(self, o):
        return self._binop(np.add, o, True)

    def __sub__(self, o):
        return self._binop(np.subtract, o)

    def __rsub__(self, o):
        return self._binop(np.subtract, o, True)

    def __neg__(self):
        return SymQuantity(symnp.apply_ufunc(np.negative, _plain(self)), self._unit)

    def __abs__(self):
        return SymQuantity(symnp.apply_ufunc(np.absolute, _plain(self)), self._unit)

    def __pow__(self, p):
        return self.__array_ufunc__(np.power, '__call__', self, p)

    def __rpow__(self, o):
        return self.__array_ufunc__(np.power, '__call__', o, self)

    # -- indexing
    def __getitem__(self, idx):
        idx = symnp.concretize_index(idx)
        r = np.ndarray.__getitem__(_plain(self), idx)
        return SymQuantity(r, self._unit) if not isinstance(r, np.ndarray) else _with_unit(r, self._unit)

    def __setitem__(self, idx, value):
        if isinstance(value, SymQuantity):
            value = value.to(self._unit).value
        elif isinstance(value, _u.Quantity):
            value = value.to(self._unit).value
        else:
            # bare value into a quantity: astropy allows it only for dimensionless units (or 0/inf/nan)
            sh = _u.Quantity(np.ones(self.shape), self._unit)
            sv = _shadow(value)
            if self.ndim:
                try:
                    sh[...] = sv if np.ndim(sv) == 0 else np.ones(np.shape(sv)) * np.asarray(sv).flat[0]
                except _u.UnitsError:
                    raise
                except Exception:  # noqa: BLE001
                    pass
        SymArray.__setitem__(self, idx, value)

    def __iter__(self):
        if self.ndim == 0:
            raise TypeError("'SymQuantity' object with a scalar value is not iterable")
        for i in range(self.shape[0]):
            yield self[i]

    def __len__(self):
        if self.ndim == 0:
            raise TypeError("'SymQuantity' object with a scalar value has no len()")
        return self.shape[0]

    def __bool__(self):
        if self.size != 1:
            raise ValueError("The truth value of an array with more than one element is ambiguous.")
        raise ValueError("Quantity truthiness is ambiguous")

    def __float__(self):
        if self._unit.is_equivalent(_u.dimensionless_unscaled):
            v = self.to(_u.dimensionless_unscaled).value
            return float(v)
        raise TypeError("only dimensionless scalar quantities can be converted to Python scalars")

    def __index__(self):
        raise TypeError("only integer dimensionless scalar quantities can be converted to a Python index")

    def __format__(self, spec):
        v = self.value
        return format(v, spec) + ' ' + str(self._unit) if self.ndim == 0 else repr(self)

    # -- methods
    def max(self, axis=None, **kw):
        return SymQuantity(symnp.amax(_plain(self).view(SymArray), axis=axis), self._unit)

    def min(self, axis=None, **kw):
        return SymQuantity(symnp.amin(_plain(self).view(SymArray), axis=axis), self._unit)

    def sum(self, axis=None, **kw):
        return SymQuantity(symnp.np_sum(_plain(self).view(SymArray), axis=axis), self._unit)

    def copy(self, order='C'):
        return SymQuantity(_plain(self).copy(), self._unit)

    def astype(self, dtype, **kw):
        return SymQuantity(symnp.astype(_plain(self).view(SymArray), dtype), self._unit)

    def diagonal(self, *a, **k):
        return _with_unit(np.ndarray.diagonal(_plain(self), *a, **k), self._unit)

    def searchsorted(self, v, side='left', sorter=None):
        a, b = common_values(self, v)
        return symnp.searchsorted(a, b, side=side)

    def argsort(self, axis=-1, **kw):
        return symnp.argsort(_plain(self).view(SymArray), axis=axis)

    def __deepcopy__(self, memo):
        return SymQuantity(_plain(self).copy(), self._unit)

    def __reduce__(self):
        raise C.Inconclusive("real pickling of a symbolic quantity")

    def __repr__(self):
        return "<SymQuantity %s %s>" % (_plain(self).tolist(), self._unit)

    __str__ = __repr__


def _with_unit(raw, unit):
    r = raw.view(SymQuantity)
    r._unit = unit
    return r


def def_physical_type(unit, name):
    try:
        _u.def_physical_type(unwrap(unit), name)
    except ValueError:
        pass


def Unit(s, *a, **k):
    if isinstance(s, SUnit):
        return s
    return SUnit(_u.Unit(s, *a, **k))


class _UnitsModule(types.ModuleType):
    def __getattr__(self, name):
        v = getattr(_u, name)
        if isinstance(v, _u.UnitBase):
            return SUnit(v)
        return v


module = _UnitsModule('astropy.units')
module.Quantity = SymQuantity
module.Unit = Unit
module.spectral = spectral
module.spectral_density = spectral_density
module.def_physical_type = def_physical_type
module.UnitBase = SUnit
module.UnitConversionError = _u.UnitConversionError
module.UnitsError = _u.UnitsError


def Q(value, unit):
    return SymQuantity(value, unit)
