"""symx.syminterp -- contract model of scipy.interpolate.interp1d(kind='linear').

Contract (scipy documentation): x is sorted internally unless assume_sorted;
y is interpolated along `axis` (default -1); the result has shape
y.shape[:-1] + x_new.shape; a query outside [x[0], x[-1]] raises ValueError
when bounds_error is true (the default unless fill_value='extrapolate'),
otherwise yields fill_value.  Units of Quantity inputs are dropped (scipy calls
numpy.asarray), which is what the code under test relies on.
"""
from __future__ import annotations

import types

import numpy as np
import scipy.interpolate as _si

from . import core as C
from . import symnp
from .symnp import e_add, e_sub, e_mul, e_div, e_lt, e_le, e_gt, _obj, _has_sym


def _values(a):
    from . import symunits
    return symunits.value_of(a)


class interp1d:
    def __init__(self, x, y, kind='linear', axis=-1, copy=True, bounds_error=None,
                 fill_value=np.nan, assume_sorted=False):
        if kind != 'linear':
            raise C.Inconclusive("interp1d kind=%r not modelled" % (kind,))
        xv, yv = _values(x), _values(y)
        self._concrete = None
        if not (isinstance(xv, np.ndarray) and xv.dtype == object) and \
           not (isinstance(yv, np.ndarray) and yv.dtype == object):
            self._concrete = _si.interp1d(xv, yv, kind=kind, axis=axis, copy=copy, bounds_error=bounds_error,
                                          fill_value=fill_value, assume_sorted=assume_sorted)
            self.x = self._concrete.x
            self.y = self._concrete.y
            return
        xs = _obj(xv)
        ys = _obj(yv)
        if xs.ndim != 1:
            raise ValueError("the x array must have exactly one dimension.")
        if axis not in (-1, ys.ndim - 1):
            raise C.Inconclusive("interp1d axis=%r not modelled" % (axis,))
        if ys.shape[-1] != len(xs):
            raise ValueError("x and y arrays must be equal in length along interpolation axis.")
        if len(xs) < 2:
            raise ValueError("x and y arrays must have at least 2 entries")
        if not assume_sorted:
            order = symnp.argsort(xs)
            xs = xs[order]
            ys = ys[..., order]
        if isinstance(fill_value, str):
            raise C.Inconclusive("interp1d fill_value=%r not modelled" % (fill_value,))
        if bounds_error is None:
            bounds_error = True if (np.isscalar(fill_value) and np.isnan(fill_value)) else False
            # scipy: bounds_error defaults to True unless fill_value="extrapolate"; a non-default
            # fill_value given without bounds_error turns it off only for the tuple/extrapolate
            # forms.  The code under test always passes bounds_error explicitly when it needs it.
            bounds_error = True
        self.bounds_error = bounds_error
        self.fill_value = fill_value
        self.x = xs.view(symnp.SymArray)
        self.y = ys.view(symnp.SymArray)

    def __call__(self, x_new):
        if self._concrete is not None:
            q = _values(x_new)
            if isinstance(q, np.ndarray) and q.dtype == object or C.is_sym(q):
                # concrete table, symbolic query: re-enter symbolically
                s = object.__new__(interp1d)
                s._concrete = None
                s.x = _obj(self._concrete.x).view(symnp.SymArray)
                s.y = _obj(self._concrete.y).view(symnp.SymArray)
                s.bounds_error = self._concrete.bounds_error
                s.fill_value = self._concrete.fill_value
                return s(x_new)
            return self._concrete(q)
        q = _values(x_new)
        scalar = not isinstance(q, np.ndarray) or q.ndim == 0
        qs = np.atleast_1d(_obj(q))
        xs, ys = symnp._plain(self.x), symnp._plain(self.y)
        n = len(xs)
        lead = ys.shape[:-1]
        out = np.empty(lead + qs.shape, dtype=object)
        mode = C.ctx().ex.opts.get('interp_mode', 'fork')
        for qpos in np.ndindex(*qs.shape):
            v = qs[qpos]
            below = e_lt(v, xs[0])
            above = e_gt(v, xs[-1])
            outside = None
            if self.bounds_error:
                if bool(below):
                    raise ValueError("A value (%s) in x_new is below the interpolation range's minimum value." % (v,))
                if bool(above):
                    raise ValueError("A value (%s) in x_new is above the interpolation range's maximum value." % (v,))
            else:
                if bool(symnp.e_or(below, above)):
                    outside = True
            if outside:
                fv = self.fill_value
                if isinstance(fv, tuple):          # (below, above), each broadcast over the leading axes of y
                    fv = fv[0] if bool(below) else fv[1]
                fv = _values(fv)
                fva = np.broadcast_to(symnp._obj(fv) if isinstance(fv, (np.ndarray, list)) else np.array(fv, dtype=object), lead) \
                    if lead else None
                for lpos in np.ndindex(*lead):
                    out[lpos + qpos] = fva[lpos] if fva is not None else (fv if not isinstance(fv, np.ndarray) else fv[()])
                continue
            if mode == 'fork':
                seg = n - 2
                for i in range(n - 2):
                    if bool(e_le(v, xs[i + 1])):
                        seg = i
                        break
                for lpos in np.ndindex(*lead):
                    y0, y1 = ys[lpos + (seg,)], ys[lpos + (seg + 1,)]
                    slope = e_div(e_sub(y1, y0), e_sub(xs[seg + 1], xs[seg]))
                    out[lpos + qpos] = e_add(e_mul(slope, e_sub(v, xs[seg])), y0)
            else:
                for lpos in np.ndindex(*lead):
                    acc = None
                    for seg in range(n - 2, -1, -1):
                        y0, y1 = ys[lpos + (seg,)], ys[lpos + (seg + 1,)]
                        slope = e_div(e_sub(y1, y0), e_sub(xs[seg + 1], xs[seg]))
                        val = e_add(e_mul(slope, e_sub(v, xs[seg])), y0)
                        acc = val if acc is None else C.ite(e_le(v, xs[seg + 1]), val, acc)
                    out[lpos + qpos] = acc
        if scalar:
            out = out.reshape(lead)
        return symnp.finish(out)


module = types.ModuleType('scipy.interpolate')
module.interp1d = interp1d
