"""symx.runner -- command line driver: ./vcheck <ID> [--tier quick|thorough] [--replay PATH]"""
from __future__ import annotations

import argparse
import importlib
import json
import multiprocessing as mp
import os
import signal
import sys
import time
import traceback

from . import core as C
from . import report as R

EXIT_OK, EXIT_VIOLATION, EXIT_INCONCLUSIVE = 0, 1, 2


class Config:
    def __init__(self, name, fn, timeout_s=None):
        self.name = name
        self.fn = fn
        self.timeout_s = timeout_s


def _run_config(args):
    modname, idx, tier, seed = args
    mod = importlib.import_module(modname)
    cfg = mod.configs(tier, seed)[idx]
    part = R.Part(cfg.name)
    t0 = time.time()

    def on_alarm(signum, frame):
        raise C.Inconclusive("configuration time limit (%ss) exceeded" % cfg.timeout_s)
    if cfg.timeout_s:
        signal.signal(signal.SIGALRM, on_alarm)
        signal.alarm(int(cfg.timeout_s))
    try:
        cfg.fn(part)
    except C.Inconclusive as e:
        part.inconclusive.append("%s: %s" % (cfg.name, e))
    except BaseException as e:  # noqa: BLE001
        part.inconclusive.append("%s: harness error %s: %s\n%s" % (cfg.name, type(e).__name__, e,
                                                                     traceback.format_exc(limit=8)))
    finally:
        signal.alarm(0)
    part.wall = time.time() - t0
    part.functions = set(part.functions)
    part.assumptions = set(part.assumptions)
    return part


def _worker_main(argv):
    """python -m symx.runner --worker <module> <index> <tier> <seed> <outfile>"""
    import pickle
    import resource
    lim = int(os.environ.get('VERIF_WORKER_MEM_GB', '6')) * (1 << 30)
    try:
        resource.setrlimit(resource.RLIMIT_AS, (lim, lim))
    except (ValueError, OSError):
        pass
    try:
        import z3
        z3.set_param('memory_max_size', int(os.environ.get('VERIF_Z3_MEM_MB', '4000')))
    except Exception:  # noqa: BLE001
        pass
    modname, idx, tier, seed, out = argv
    part = _run_config((modname, int(idx), tier, int(seed)))
    with open(out, 'wb') as fh:
        pickle.dump(part, fh)
    return 0


def _run_parallel(work, cfgs, jobs):
    """One fresh interpreter per configuration (no fork of a threaded parent; hard time limits)."""
    import pickle
    import subprocess
    import tempfile
    from concurrent.futures import ThreadPoolExecutor
    tmpdir = tempfile.mkdtemp(prefix='symx-')

    def one(w):
        modname, idx, tier, seed = w
        cfg = cfgs[idx]
        out = os.path.join(tmpdir, 'part-%d.pkl' % idx)
        limit = (cfg.timeout_s or 3600) + 120
        t0 = time.time()
        try:
            p = subprocess.run([sys.executable, '-u', '-m', 'symx.runner', '--worker', modname, str(idx), tier, str(seed), out],
                               stdout=subprocess.PIPE, stderr=subprocess.STDOUT, timeout=limit, cwd=R.VERIF)
            if os.path.exists(out):
                with open(out, 'rb') as fh:
                    return pickle.load(fh)
            part = R.Part(cfg.name)
            part.inconclusive.append("%s: worker exited %d without a result: %s" % (cfg.name, p.returncode,
                                                                                    p.stdout.decode(errors='replace')[-800:]))
        except subprocess.TimeoutExpired:
            part = R.Part(cfg.name)
            part.inconclusive.append("%s: worker killed after %ds" % (cfg.name, limit))
        part.wall = time.time() - t0
        return part
    try:
        with ThreadPoolExecutor(max_workers=jobs) as tp:
            parts = list(tp.map(one, work))
    finally:
        import shutil
        shutil.rmtree(tmpdir, ignore_errors=True)
    return parts


def main(argv=None):
    if argv is None:
        argv = sys.argv[1:]
    if argv and argv[0] == '--worker':
        return _worker_main(argv[1:])
    ap = argparse.ArgumentParser()
    ap.add_argument('prop')
    ap.add_argument('--tier', default=os.environ.get('VERIF_TIER', 'quick'))
    ap.add_argument('--replay', default=None)
    ap.add_argument('--jobs', type=int, default=int(os.environ.get('VERIF_JOBS', '0')))
    ap.add_argument('--only', default=None, help='substring filter on configuration names')
    ap.add_argument('--list', action='store_true')
    ap.add_argument('--verbose', '-v', action='store_true')
    a = ap.parse_args(argv)
    prop = a.prop.upper()
    tier = a.tier if a.tier in ('quick', 'thorough') else 'quick'
    seed = int(os.environ.get('VERIF_SEED', '0') or 0)
    modname = 'harness.%s' % prop.lower()
    mod = importlib.import_module(modname)

    if a.replay:
        with open(a.replay) as fh:
            rec = json.load(fh)
        ok, info = mod.replay(rec)
        print("replay %s: %s %s" % (a.replay, 'VIOLATION reproduced' if ok else 'not reproduced', info))
        if ok:
            print("VIOLATION property=%s replay=%s" % (prop, a.replay))
        return EXIT_VIOLATION if ok else EXIT_OK

    if tier == 'thorough':
        os.environ.setdefault('VERIF_XCHECK', '3')      # per configuration: re-decide 3 unsat queries with cvc5
    cfgs = mod.configs(tier, seed)
    idxs = [i for i, c in enumerate(cfgs) if not a.only or a.only in c.name]
    if a.list:
        for i in idxs:
            print(cfgs[i].name)
        return 0
    t0 = time.time()
    jobs = a.jobs or min(len(idxs), os.cpu_count() or 1, 16)
    work = [(modname, i, tier, seed) for i in idxs]
    if jobs <= 1 or len(work) <= 1:
        parts = [_run_config(w) for w in work]
    else:
        parts = _run_parallel(work, cfgs, jobs)
    wall = time.time() - t0

    level = getattr(mod, 'LEVEL', 'model_checking')
    extra = getattr(mod, 'evidence_extra', lambda tier: {})(tier)
    ev = R.write_evidence(prop, tier, seed, parts, wall, level=level, extra=extra)

    viol = [(p, v) for p in parts for v in p.violations if v.get('finding') is None]
    known = {}
    for p in parts:
        for v in p.violations:
            if v.get('finding') is not None:
                known.setdefault(v['finding'], v)
    inconc = [s for p in parts for s in p.inconclusive]
    vac = [p.name for p in parts if p.paths == 0 and not p.inconclusive]
    valfail = [s for p in parts for s in p.validation_failures]

    q = ev['coverage']['queries']
    print("%s tier=%s configs=%d paths=%d queries=%d (unsat %d, sat %d, unknown %d) validated=%d solver=%.1fs wall=%.1fs" % (
        prop, tier, len(parts), ev['coverage']['states'], ev['coverage']['transitions'], q['unsat'], q['sat'],
        q['unknown'], ev['coverage']['traces_validated_against_impl'], ev['coverage']['solver_time_s'], wall))
    if a.verbose:
        for p in parts:
            print("  %-40s paths=%-5d queries=%s wall=%.1fs" % (p.name, p.paths, p.queries, p.wall))
    findings = {f['id']: f for f in R.load_known_findings()}
    for fid, v in sorted(known.items()):
        print("KNOWN-FINDING: property=%s %s: %s" % (prop, fid, findings.get(fid, {}).get('what', v['label'])))
    shown = set()
    for p, v in viol:
        key = (p.name, v['label'])
        if key in shown:
            continue
        shown.add(key)
        path = R.write_replay(prop, {'config': p.name, **v})
        print("VIOLATION property=%s replay=%s" % (prop, path))
        print("  %s: %s" % (p.name, v['label']))
        print("  inputs: %s" % json.dumps(v['inputs'])[:600])
        if v.get('replay_info') is not None:
            print("  real code: %s" % json.dumps(v['replay_info'])[:400])
    if viol:
        return EXIT_VIOLATION
    if inconc or vac or valfail:
        for s in inconc[:20]:
            print("INCONCLUSIVE %s" % s)
        for s in vac:
            print("INCONCLUSIVE vacuous configuration (no path explored): %s" % s)
        for s in valfail[:10]:
            print("INCONCLUSIVE translator validation failed: %s" % s)
        return EXIT_INCONCLUSIVE
    return EXIT_OK


if __name__ == '__main__':
    sys.exit(main())
