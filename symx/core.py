"""symx.core -- symbolic scalar values over z3 terms and the path explorer.

Scalars:  SymBool (z3 Bool), SymInt (z3 Int), SymReal (z3 Real + optional IEEE kind).
Explorer: depth-first re-execution with decision prefixes (DART style).

Everything that is concrete stays a plain Python / numpy value; only values
that depend on a solver variable are wrapped.
"""
from __future__ import annotations

import itertools
import math
import time
from fractions import Fraction

import numpy as np
import os
import z3

# ----------------------------------------------------------------------------
# kinds of extended reals
FIN, PINF, NINF, NAN = 0, 1, 2, 3
_K = [z3.IntVal(i) for i in range(4)]


class Abort(BaseException):
    """Path is infeasible / abandoned (BaseException: code under test cannot swallow it)."""


class Inconclusive(BaseException):
    """The engine cannot follow the code (unsupported API, solver unknown)."""


class Refuted(BaseException):
    """Raised by a harness when a violation has been confirmed."""


_CTX = None


def ctx():
    if _CTX is None:
        raise RuntimeError("no active exploration context")
    return _CTX


def has_ctx():
    return _CTX is not None


# ----------------------------------------------------------------------------
# constants

_qcache = {}


def rv(x):
    """Exact z3 rational for a Python/numpy number."""
    if isinstance(x, (bool, np.bool_)):
        x = int(x)
    if isinstance(x, (int, np.integer)):
        return z3.RealVal(int(x))
    if isinstance(x, Fraction):
        return z3.Q(x.numerator, x.denominator)
    x = float(x)
    r = _qcache.get(x)
    if r is None:
        fr = Fraction(x)
        r = z3.Q(fr.numerator, fr.denominator)
        _qcache[x] = r
    return r


def is_conc_num(x):
    return isinstance(x, (int, float, np.integer, np.floating, bool, np.bool_, Fraction))


def is_sym(x):
    return isinstance(x, (SymReal, SymInt, SymBool))


def simp(t):
    # sort_sums: a canonical argument order for +, so that sums accumulated in a different order (permuted
    # filters / models) hash-cons to the same term
    return z3.simplify(t, sort_sums=True)


def _arr(ufname, a, b):
    """scalar (op) ndarray -> element-wise through symnp."""
    from . import symnp
    return symnp.apply_binary(getattr(np, ufname), a, b)


# ----------------------------------------------------------------------------
# SymBool


def mk_bool(t):
    t = simp(t)
    if z3.is_true(t):
        return True
    if z3.is_false(t):
        return False
    return SymBool(t)


def bterm(b):
    if isinstance(b, SymBool):
        return b.t
    if isinstance(b, (bool, np.bool_)):
        return z3.BoolVal(bool(b))
    if isinstance(b, SymInt):
        return b.t != 0
    if isinstance(b, (int, np.integer)):
        return z3.BoolVal(bool(b))
    raise TypeError("not a boolean: %r" % (b,))


class SymBool:
    __slots__ = ('t',)
    __array_priority__ = 1000

    def __init__(self, t):
        self.t = t

    def __bool__(self):
        return ctx().decide(self.t)

    def __hash__(self):
        return self.t.hash()

    def __and__(self, o):
        if isinstance(o, np.ndarray):
            return NotImplemented
        return mk_bool(z3.And(self.t, bterm(o)))

    __rand__ = __and__

    def __or__(self, o):
        if isinstance(o, np.ndarray):
            return NotImplemented
        return mk_bool(z3.Or(self.t, bterm(o)))

    __ror__ = __or__

    def __xor__(self, o):
        return mk_bool(z3.Xor(self.t, bterm(o)))

    __rxor__ = __xor__

    def __invert__(self):
        return mk_bool(z3.Not(self.t))

    def __eq__(self, o):
        if isinstance(o, (SymBool, bool, np.bool_)):
            return mk_bool(self.t == bterm(o))
        return to_int(self) == o

    def __ne__(self, o):
        r = self.__eq__(o)
        return (not r) if isinstance(r, bool) else ~r

    def _i(self):
        return SymInt(z3.If(self.t, z3.IntVal(1), z3.IntVal(0)))

    def __add__(self, o):
        return self._i() + o

    def __radd__(self, o):
        return o + self._i()

    def __mul__(self, o):
        if isinstance(o, (SymReal, float, np.floating)):
            return ite(self, o, 0.0)
        return self._i() * o

    __rmul__ = __mul__

    def __repr__(self):
        return "SymBool(%s)" % self.t


# ----------------------------------------------------------------------------
# SymInt


def mk_int(t):
    t = simp(t)
    if z3.is_int_value(t):
        return t.as_long()
    return SymInt(t)


def iterm(x):
    if isinstance(x, SymInt):
        return x.t
    if isinstance(x, SymBool):
        return x._i().t
    if isinstance(x, (bool, np.bool_, int, np.integer)):
        return z3.IntVal(int(x))
    raise TypeError("not an int: %r" % (x,))


def to_int(x):
    if isinstance(x, SymBool):
        return x._i()
    return x


class SymInt:
    __slots__ = ('t',)
    __array_priority__ = 1000

    def __init__(self, t):
        self.t = t

    def __hash__(self):
        return self.t.hash()

    def _bin(self, o, f, rev=False, uf=None):
        if isinstance(o, np.ndarray):
            return (_arr(uf, o, self) if rev else _arr(uf, self, o)) if uf else NotImplemented
        if isinstance(o, (SymReal, float, np.floating, Fraction)):
            a = SymReal(z3.ToReal(self.t))
            return f(real(o), a) if rev else f(a, real(o))
        a, b = self.t, iterm(o)
        return mk_int(f(b, a) if rev else f(a, b))

    def __add__(self, o):
        return self._bin(o, lambda a, b: a + b, uf='add')

    def __radd__(self, o):
        return self._bin(o, lambda a, b: a + b, True, uf='add')

    def __sub__(self, o):
        return self._bin(o, lambda a, b: a - b, uf='subtract')

    def __rsub__(self, o):
        return self._bin(o, lambda a, b: a - b, True, uf='subtract')

    def __mul__(self, o):
        return self._bin(o, lambda a, b: a * b, uf='multiply')

    def __rmul__(self, o):
        return self._bin(o, lambda a, b: a * b, True, uf='multiply')

    def __neg__(self):
        return mk_int(-self.t)

    def __truediv__(self, o):
        return SymReal(z3.ToReal(self.t)) / o

    def __rtruediv__(self, o):
        return real(o) / SymReal(z3.ToReal(self.t))

    def _cmp(self, o, f):
        if isinstance(o, np.ndarray):
            return NotImplemented
        if isinstance(o, (SymReal, float, np.floating, Fraction)):
            return f(SymReal(z3.ToReal(self.t)), real(o))
        return mk_bool(f(self.t, iterm(o)))

    def __lt__(self, o):
        return self._cmp(o, lambda a, b: a < b)

    def __le__(self, o):
        return self._cmp(o, lambda a, b: a <= b)

    def __gt__(self, o):
        return self._cmp(o, lambda a, b: a > b)

    def __ge__(self, o):
        return self._cmp(o, lambda a, b: a >= b)

    def __eq__(self, o):
        if o is None:
            return False
        return self._cmp(o, lambda a, b: a == b)

    def __ne__(self, o):
        if o is None:
            return True
        return self._cmp(o, lambda a, b: a != b)

    def __index__(self):
        return ctx().concretize_int(self.t)

    __int__ = __index__

    def __format__(self, spec):
        return ctx().token(self, spec)

    def __float__(self):
        raise Inconclusive("float() of a symbolic int")

    def __bool__(self):
        return ctx().decide(self.t != 0)

    def __repr__(self):
        return "SymInt(%s)" % self.t


# ----------------------------------------------------------------------------
# SymReal


def real(x):
    """Coerce to SymReal (never returns a python float)."""
    if isinstance(x, SymReal):
        return x
    if isinstance(x, SymInt):
        return SymReal(z3.ToReal(x.t))
    if isinstance(x, SymBool):
        return SymReal(z3.If(x.t, rv(1), rv(0)))
    if isinstance(x, (float, np.floating)):
        xf = float(x)
        if math.isnan(xf):
            return SymReal(rv(0), _K[NAN])
        if math.isinf(xf):
            return SymReal(rv(0), _K[PINF] if xf > 0 else _K[NINF])
        return SymReal(rv(xf))
    if isinstance(x, (int, np.integer, bool, np.bool_, Fraction)):
        return SymReal(rv(x))
    raise TypeError("cannot make a SymReal of %r" % (type(x),))


def _kt(a):
    return a.k if a.k is not None else _K[FIN]


def _knorm(t, k):
    if k is None:
        return SymReal(simp(t))
    k = simp(k)
    if z3.is_int_value(k) and k.as_long() == FIN:
        return SymReal(simp(t))
    if z3.is_int_value(k):
        return SymReal(rv(0), k)
    return SymReal(simp(t), k)


def _forkmode(a, b=None):
    """Special values handled by forking on the kind (no if-then-else terms), see Context.kind_mode."""
    if not has_ctx() or ctx().kind_mode != 'fork':
        return False
    return a.k is not None or (b is not None and b.k is not None)


_INF, _NAN = float('inf'), float('nan')


def _norm(x):
    """Kinded SymReal -> finite SymReal (k None) | python float inf/-inf/nan, forking on the kind."""
    if not isinstance(x, SymReal):
        return x
    if x.k is None:
        return x
    c = ctx()
    k = simp(x.k)
    if c.decide(k == FIN):
        return SymReal(x.t, None, True)
    if c.decide(k == NAN):
        return _NAN
    if c.decide(k == PINF):
        return _INF
    return -_INF


def _sign_fork(f):
    """+1 / -1 / 0 of a finite symbolic real, forking."""
    c = ctx()
    if c.decide(simp(f.t > 0)):
        return 1
    if c.decide(simp(f.t < 0)):
        return -1
    return 0


def _fork_bin(op, a, b):
    a, b = _norm(a), _norm(b)
    sa, sb = isinstance(a, SymReal), isinstance(b, SymReal)
    if not sa and not sb:
        with np.errstate(all='ignore'):
            fa, fb = np.float64(a), np.float64(b)
            r = {'add': lambda: fa + fb, 'mul': lambda: fa * fb, 'div': lambda: fa / fb,
                 'lt': lambda: fa < fb, 'eq': lambda: fa == fb}[op]()
        return bool(r) if op in ('lt', 'eq') else float(r)
    if sa and sb:
        if op == 'add':
            return SymReal(simp(a.t + b.t))
        if op == 'mul':
            return SymReal(simp(a.t * b.t))
        if op == 'lt':
            return mk_bool(a.t < b.t)
        if op == 'eq':
            return mk_bool(a.t == b.t)
        if op == 'div':
            if b.z or ctx().div_mode == 'ieee':
                if ctx().decide(simp(b.t == 0)):
                    sg = _sign_fork(a)
                    return _NAN if sg == 0 else sg * _INF
                return SymReal(simp(a.t / b.t))
            ctx().assume_defined(b.t != 0, "division")
            return SymReal(_quot(a.t, b.t))
    # exactly one special / concrete float
    f, s_ = (a, b) if sa else (b, a)      # f finite symbolic, s_ python float
    s_ = float(s_)
    import math as _m
    if not (_m.isinf(s_) or _m.isnan(s_)):
        # plain finite float with a symbolic: ordinary arithmetic
        fr = SymReal(rv(s_))
        x, y = (f, fr) if sa else (fr, f)
        return _plain_bin(op, x, y)
    if op == 'add':
        return s_
    if op == 'mul':
        if _m.isnan(s_):
            return _NAN
        sg = _sign_fork(f)
        return _NAN if sg == 0 else sg * s_
    if op == 'div':
        if _m.isnan(s_):
            return _NAN
        if sa:                      # finite / inf
            return 0.0
        # inf / finite  (+0 assumed for a zero denominator)
        return s_ if ctx().decide(simp(f.t >= 0)) else -s_
    if op == 'lt':
        if _m.isnan(s_):
            return False
        return (s_ > 0) if sa else (s_ < 0)
    if op == 'eq':
        return False
    raise Inconclusive("special-value op %s" % op)


def _quot(at, bt):
    """a / b over the reals with b != 0 assumed by the caller: a common factor is cancelled structurally
    ((p*r)/p = r), which keeps later queries free of a needless non-linear division."""
    if z3.is_app(at) and at.decl().kind() == z3.Z3_OP_MUL:
        ch = at.children()
        bid = bt.get_id()
        for i, c in enumerate(ch):
            if c.get_id() == bid:
                rest = ch[:i] + ch[i + 1:]
                if not rest:
                    return rv(1)
                r = rest[0]
                for x in rest[1:]:
                    r = r * x
                return simp(r)
    if at.get_id() == bt.get_id():
        return rv(1)
    return simp(at / bt)


def _plain_bin(op, x, y):
    if op == 'add':
        return SymReal(simp(x.t + y.t))
    if op == 'mul':
        return SymReal(simp(x.t * y.t))
    if op == 'lt':
        return mk_bool(x.t < y.t)
    if op == 'eq':
        return mk_bool(x.t == y.t)
    if op == 'div':
        if y.z:
            if ctx().decide(simp(y.t == 0)):
                sg = _sign_fork(x)
                return _NAN if sg == 0 else sg * _INF
            return SymReal(simp(x.t / y.t))
        if has_ctx():
            ctx().assume_defined(y.t != 0, "division")
            return SymReal(_quot(x.t, y.t))
        return SymReal(simp(x.t / y.t))


def _fork_le(a, b):
    a, b = _norm(a), _norm(b)
    lt = _fork_bin('lt', a, b)
    if lt is True:
        return True
    eq = _fork_bin('eq', a, b)
    if isinstance(lt, bool) and isinstance(eq, bool):
        return lt or eq
    return mk_bool(z3.Or(bterm(lt), bterm(eq)))


def _fork_ne(a, b):
    r = _fork_bin('eq', a, b)
    return (not r) if isinstance(r, bool) else ~r


class SymReal:
    """A real-valued term; k is None (finite) or a z3 Int term in {FIN,PINF,NINF,NAN}."""
    __slots__ = ('t', 'k', 'z')
    __array_priority__ = 1000

    def __init__(self, t, k=None, z=False):
        self.t = t
        self.k = k
        self.z = z      # may be zero / of either sign although finite (came from an extended-real input)

    def __hash__(self):
        return self.t.hash()

    # --- kind predicates (z3 terms)
    def is_fin(self):
        return z3.BoolVal(True) if self.k is None else self.k == FIN

    def is_nan(self):
        return z3.BoolVal(False) if self.k is None else self.k == NAN

    def is_pinf(self):
        return z3.BoolVal(False) if self.k is None else self.k == PINF

    def is_ninf(self):
        return z3.BoolVal(False) if self.k is None else self.k == NINF

    # --- arithmetic
    def _co(self, o):
        if isinstance(o, np.ndarray):
            return None
        try:
            return real(o)
        except TypeError:
            return None

    def __add__(self, o):
        if isinstance(o, np.ndarray):
            return _arr('add', self, o)
        b = self._co(o)
        if b is None:
            return NotImplemented
        a = self
        if a.k is None and b.k is None:
            return SymReal(simp(a.t + b.t))
        if _forkmode(a, b):
            return _fork_bin('add', a, b)
        ka, kb = _kt(a), _kt(b)
        k = z3.If(z3.Or(ka == NAN, kb == NAN), _K[NAN],
                  z3.If(ka == FIN, kb, z3.If(kb == FIN, ka, z3.If(ka == kb, ka, _K[NAN]))))
        return _knorm(a.t + b.t, k)

    __radd__ = __add__

    def __neg__(self):
        if self.k is None:
            return SymReal(simp(-self.t), None, self.z)
        if _forkmode(self):
            v = _norm(self)
            return -v
        k = z3.If(self.k == PINF, _K[NINF], z3.If(self.k == NINF, _K[PINF], self.k))
        return _knorm(-self.t, k)

    def __pos__(self):
        return self

    def __sub__(self, o):
        if isinstance(o, np.ndarray):
            return _arr('subtract', self, o)
        b = self._co(o)
        if b is None:
            return NotImplemented
        return self + (-b)

    def __rsub__(self, o):
        if isinstance(o, np.ndarray):
            return _arr('subtract', o, self)
        b = self._co(o)
        if b is None:
            return NotImplemented
        return b + (-self)

    def __mul__(self, o):
        if isinstance(o, np.ndarray):
            return _arr('multiply', self, o)
        b = self._co(o)
        if b is None:
            return NotImplemented
        a = self
        if a.k is None and b.k is None:
            return SymReal(simp(a.t * b.t))
        if _forkmode(a, b):
            return _fork_bin('mul', a, b)
        ka, kb = _kt(a), _kt(b)
        # sign: +1 / -1 / 0 as Int terms
        sa = z3.If(ka == PINF, 1, z3.If(ka == NINF, -1, z3.If(a.t > 0, 1, z3.If(a.t < 0, -1, 0))))
        sb = z3.If(kb == PINF, 1, z3.If(kb == NINF, -1, z3.If(b.t > 0, 1, z3.If(b.t < 0, -1, 0))))
        anyinf = z3.Or(ka == PINF, ka == NINF, kb == PINF, kb == NINF)
        k = z3.If(z3.Or(ka == NAN, kb == NAN), _K[NAN],
                  z3.If(z3.Not(anyinf), _K[FIN],
                        z3.If(sa * sb == 0, _K[NAN], z3.If(sa * sb > 0, _K[PINF], _K[NINF]))))
        return _knorm(a.t * b.t, k)

    __rmul__ = __mul__

    def _div(a, b):
        c = ctx() if has_ctx() else None
        if c is not None and c.kind_mode == 'fork' and (a.k is not None or b.k is not None or b.z):
            return _fork_bin('div', a, b)
        ieee = (a.k is not None or b.k is not None or (c is not None and c.div_mode == 'ieee'))
        if not ieee:
            if z3.is_rational_value(b.t):
                if b.t.numerator_as_long() == 0:
                    raise Inconclusive("division by literal zero outside ieee mode")
            elif c is not None:
                c.assume_defined(b.t != 0, "division")
            if z3.is_rational_value(a.t) and a.t.numerator_as_long() == 0:
                return SymReal(rv(0))          # 0 / b with b != 0 assumed
            if c is not None:
                return SymReal(_quot(a.t, b.t))
            return SymReal(simp(a.t / b.t))
        ka, kb = _kt(a), _kt(b)
        sa = z3.If(ka == PINF, 1, z3.If(ka == NINF, -1, z3.If(a.t > 0, 1, z3.If(a.t < 0, -1, 0))))
        sb = z3.If(kb == PINF, 1, z3.If(kb == NINF, -1, z3.If(b.t >= 0, 1, -1)))  # +0 assumed
        ainf = z3.Or(ka == PINF, ka == NINF)
        binf = z3.Or(kb == PINF, kb == NINF)
        bzero = z3.And(kb == FIN, b.t == 0)
        k = z3.If(z3.Or(ka == NAN, kb == NAN), _K[NAN],
                  z3.If(z3.And(ainf, binf), _K[NAN],
                        z3.If(ainf, z3.If(sa * sb > 0, _K[PINF], _K[NINF]),
                              z3.If(binf, _K[FIN],
                                    z3.If(bzero, z3.If(sa == 0, _K[NAN], z3.If(sa > 0, _K[PINF], _K[NINF])),
                                          _K[FIN])))))
        # value: 0 when dividing by an infinity; a/b otherwise (guarded)
        q = z3.FreshReal('q')
        if c is not None:
            c.add_def(q, z3.If(binf, rv(0), a.t / z3.If(b.t == 0, rv(1), b.t)), 'div')
            t = q
        else:
            t = z3.If(binf, rv(0), a.t / z3.If(b.t == 0, rv(1), b.t))
        return _knorm(t, k)

    def __truediv__(self, o):
        if isinstance(o, np.ndarray):
            return _arr('true_divide', self, o)
        b = self._co(o)
        if b is None:
            return NotImplemented
        return self._div(b)

    def __rtruediv__(self, o):
        if isinstance(o, np.ndarray):
            return _arr('true_divide', o, self)
        b = self._co(o)
        if b is None:
            return NotImplemented
        return b._div(self)

    def __pow__(self, o):
        if isinstance(o, np.ndarray):
            return _arr('power', self, o)
        if is_conc_num(o) and float(o) == int(o):
            n = int(o)
            if n == 0:
                return real(1.0)
            if n < 0:
                return real(1.0) / (self ** (-n))
            r = self
            for _ in range(n - 1):
                r = r * self
            return r
        if is_conc_num(o) and float(o) == 0.5:
            return s_sqrt(self)
        raise Inconclusive("unsupported power %r" % (o,))

    def __rpow__(self, base):
        # base ** self
        if is_conc_num(base) and float(base) == 10.0:
            return s_pow10(self)
        raise Inconclusive("unsupported power base %r" % (base,))

    def __abs__(self):
        if self.k is None and self.z and has_ctx() and ctx().kind_mode == 'fork':
            return self if ctx().decide(simp(self.t >= 0)) else SymReal(simp(-self.t), None, True)
        if self.k is None:
            return SymReal(simp(z3.If(self.t >= 0, self.t, -self.t)))
        if _forkmode(self):
            return abs(_norm(self))
        k = z3.If(self.k == NINF, _K[PINF], self.k)
        return _knorm(z3.If(self.t >= 0, self.t, -self.t), k)

    # --- comparisons (IEEE: anything with NaN is False, except !=)
    def _lt(a, b):
        if a.k is None and b.k is None:
            return a.t < b.t
        ka, kb = _kt(a), _kt(b)
        return z3.And(ka != NAN, kb != NAN,
                      z3.Or(z3.And(ka == FIN, kb == FIN, a.t < b.t),
                            z3.And(ka == NINF, kb != NINF),
                            z3.And(kb == PINF, ka != PINF)))

    def _eq(a, b):
        if a.k is None and b.k is None:
            return a.t == b.t
        ka, kb = _kt(a), _kt(b)
        return z3.And(ka != NAN, kb != NAN, ka == kb, z3.Or(ka != FIN, a.t == b.t))

    def __lt__(self, o):
        if isinstance(o, np.ndarray):
            return _arr('less', self, o)
        b = self._co(o)
        if b is None:
            return NotImplemented
        if _forkmode(self, b):
            return _fork_bin('lt', self, b)
        return mk_bool(self._lt(b))

    def __gt__(self, o):
        if isinstance(o, np.ndarray):
            return _arr('greater', self, o)
        b = self._co(o)
        if b is None:
            return NotImplemented
        if _forkmode(self, b):
            return _fork_bin('lt', b, self)
        return mk_bool(b._lt(self))

    def __le__(self, o):
        if isinstance(o, np.ndarray):
            return _arr('less_equal', self, o)
        b = self._co(o)
        if b is None:
            return NotImplemented
        if _forkmode(self, b):
            return _fork_le(self, b)
        return mk_bool(z3.Or(self._lt(b), self._eq(b)))

    def __ge__(self, o):
        if isinstance(o, np.ndarray):
            return _arr('greater_equal', self, o)
        b = self._co(o)
        if b is None:
            return NotImplemented
        if _forkmode(self, b):
            return _fork_le(b, self)
        return mk_bool(z3.Or(b._lt(self), self._eq(b)))

    def __eq__(self, o):
        if o is None or isinstance(o, str):
            return False
        if isinstance(o, np.ndarray):
            return _arr('equal', self, o)
        b = self._co(o)
        if b is None:
            return NotImplemented
        if _forkmode(self, b):
            return _fork_bin('eq', self, b)
        return mk_bool(self._eq(b))

    def __ne__(self, o):
        if o is None or isinstance(o, str):
            return True
        if isinstance(o, np.ndarray):
            return _arr('not_equal', self, o)
        b = self._co(o)
        if b is None:
            return NotImplemented
        if _forkmode(self, b):
            return _fork_ne(self, b)
        return mk_bool(z3.Not(self._eq(b)))

    # numpy object-dtype ufuncs call these methods
    def sqrt(self):
        return s_sqrt(self)

    def log10(self):
        return s_log10(self)

    def log(self):
        return s_log(self)

    def conjugate(self):
        return self

    def __float__(self):
        if has_ctx() and ctx().printing:
            return ctx().token_float(self)
        raise Inconclusive("float() of a symbolic real (the code needs a concrete number)")

    def __int__(self):
        t = self.t
        return ctx().concretize_int(z3.If(t >= 0, z3.ToInt(t), -z3.ToInt(-t)))

    def __bool__(self):
        return ctx().decide(z3.Not(self._eq(real(0.0))))

    def __round__(self, n=None):
        raise Inconclusive("round() of a symbolic real")

    def __format__(self, spec):
        return ctx().token(self, spec)

    def __str__(self):
        if has_ctx() and ctx().printing:
            return ctx().token(self, '')
        return "SymReal(%s%s)" % (self.t, '' if self.k is None else ', k=%s' % self.k)

    __repr__ = lambda self: "SymReal(%s%s)" % (self.t, '' if self.k is None else ', k=%s' % self.k)


class SymRealPrintable(SymReal):
    """A symbolic real that tolerates '%g' formatting inside (silenced) print statements: float() yields
    NaN, so that any *computation* on the converted value poisons the result instead of going unnoticed."""
    __slots__ = ()

    def __float__(self):
        return float('nan')


def fresh_real(name, kinded=False):
    t = z3.Real(name)
    if kinded:
        k = z3.Int(name + '#k')
        if has_ctx():
            ctx().pre.append(z3.And(k >= 0, k <= 3))
        return SymReal(t, k)
    return SymReal(t)


# ----------------------------------------------------------------------------
# scalar functions on (concrete | symbolic) values


def ite(c, a, b):
    """if-then-else on scalars (c: bool | SymBool)."""
    if isinstance(c, (bool, np.bool_)):
        return a if c else b
    if isinstance(a, (SymBool, bool, np.bool_)) and isinstance(b, (SymBool, bool, np.bool_)):
        return mk_bool(z3.If(c.t, bterm(a), bterm(b)))
    if isinstance(a, (SymInt, int, np.integer)) and isinstance(b, (SymInt, int, np.integer)) \
            and not isinstance(a, (bool, np.bool_)) and not isinstance(b, (bool, np.bool_)):
        return mk_int(z3.If(c.t, iterm(a), iterm(b)))
    ra, rb = real(a), real(b)
    if ra.k is None and rb.k is None:
        return SymReal(simp(z3.If(c.t, ra.t, rb.t)))
    return _knorm(z3.If(c.t, ra.t, rb.t), z3.If(c.t, _kt(ra), _kt(rb)))


def s_sqrt(x):
    if is_conc_num(x):
        with np.errstate(all='ignore'):
            return float(np.sqrt(np.float64(x)))
    x = real(x)
    c = ctx()
    key = ('sqrt', x.t.get_id())
    hit = c.fn_cache.get(key)
    if hit is not None:
        return hit[1]
    s = z3.FreshReal('sqrt')
    c.add_def_rel(s, z3.And(s >= 0, s * s == x.t), 'sqrt', [x.t])
    if x.k is None:
        c.assume_defined(x.t >= 0, "sqrt")
        r = SymReal(s)
    else:
        k = z3.If(x.k == NAN, _K[NAN], z3.If(x.k == PINF, _K[PINF],
                  z3.If(x.k == NINF, _K[NAN], z3.If(x.t < 0, _K[NAN], _K[FIN]))))
        r = _knorm(s, k)
    c.fn_cache[key] = (x, r)
    return r


_LN10 = math.log(10.0)


def _log_atom(c, base, t):
    """Uninterpreted log: hash-consed fresh variable per argument term."""
    key = ('log', base, t.get_id())
    hit = c.fn_cache.get(key)
    if hit is not None:
        return hit[1]
    v = z3.FreshReal('log%s' % base)
    c.fn_cache[key] = (t, v)
    if c.ex.opts.get('log_monotone', False):
        for (b2, t2, v2) in c.log_atoms:
            if b2 == base:
                c.facts.append(z3.Implies(z3.And(t > 0, t2 > 0), z3.And((t < t2) == (v < v2), (t == t2) == (v == v2))))
    elif c.ex.opts.get('log_congruence', True):
        for (b2, t2, v2) in c.log_atoms:       # functionality: equal arguments give equal logarithms
            if b2 == base:
                c.facts.append(z3.Implies(t == t2, v == v2))
    c.log_atoms.append((base, t, v))
    return v


def _log_struct(c, base, t):
    """log of a term, closed under product / quotient / integer power of atoms."""
    if z3.is_rational_value(t):
        f = float(t.numerator_as_long()) / float(t.denominator_as_long())
        if f > 0:
            r = rv(math.log10(f) if base == 10 else math.log(f))
            if base == 10:
                c.log_const_inverse[r.get_id()] = (r, t)     # 10**log10(const) gives the constant back exactly
            return r
    if base == 10:
        inv = c.pow10_inverse.get(t.get_id())      # log10(10**e) = e
        if inv is not None:
            return inv
    if z3.is_app(t) and c.log_product_rule:
        k = t.decl().kind()
        if k == z3.Z3_OP_MUL:
            return sum((_log_struct(c, base, a) for a in t.children()[1:]), _log_struct(c, base, t.children()[0]))
        if k == z3.Z3_OP_DIV:
            a, b = t.children()
            return _log_struct(c, base, a) - _log_struct(c, base, b)
        if k == z3.Z3_OP_POWER:
            a, b = t.children()
            if z3.is_rational_value(b):
                return b * _log_struct(c, base, a)
    return _log_atom(c, base, t)


def _s_logb(x, base):
    if is_conc_num(x):
        with np.errstate(all='ignore'):
            return float(np.log10(np.float64(x)) if base == 10 else np.log(np.float64(x)))
    x = real(x)
    c = ctx()
    if c.kind_mode == 'fork' and (x.k is not None or c.log_mode == 'ieee'):
        x = _norm(x)
        if not isinstance(x, SymReal):
            with np.errstate(all='ignore'):
                return float(np.log10(np.float64(x)) if base == 10 else np.log(np.float64(x)))
        if c.decide(simp(x.t > 0)):
            return SymReal(simp(_log_struct(c, base, x.t)))
        if c.decide(simp(x.t == 0)):
            return -_INF
        return _NAN
    # 10**t round trip
    inv = c.pow10_inverse.get(x.t.get_id()) if base == 10 else None
    if inv is not None and x.k is None:
        return SymReal(inv)
    v = _log_struct(c, base, x.t)
    if x.k is None and c.log_mode == 'assume':
        c.assume_defined(x.t > 0, "log")
        return SymReal(simp(v))
    kx = _kt(x)
    k = z3.If(kx == NAN, _K[NAN], z3.If(kx == PINF, _K[PINF], z3.If(kx == NINF, _K[NAN],
              z3.If(x.t > 0, _K[FIN], z3.If(x.t == 0, _K[NINF], _K[NAN])))))
    return _knorm(v, k)


def s_log10(x):
    return _s_logb(x, 10)


def s_log(x):
    return _s_logb(x, 'e')


def s_pow10(x):
    """10 ** x."""
    if is_conc_num(x):
        with np.errstate(all='ignore'):
            return float(np.float64(10.) ** np.float64(x))
    x = real(x)
    c = ctx()
    key = ('pow10', x.t.get_id())
    hit = c.fn_cache.get(key)
    if hit is not None:
        return hit[1]
    # 10**log10(a) == a, closed under sums: 10**(a + b) = 10**a * 10**b  (numerals are evaluated)
    res = None
    if x.k is None:
        is_add = z3.is_app(x.t) and x.t.decl().kind() == z3.Z3_OP_ADD
        parts = x.t.children() if is_add else [x.t]
        prod = None
        for p in parts:
            arg = None
            for (base, t, v) in c.log_atoms:
                if base == 10 and v.eq(p):
                    arg = t
                    break
            if arg is None:
                hit = c.log_const_inverse.get(p.get_id())
                if hit is not None:
                    arg = hit[1]
            if arg is None and is_add and z3.is_rational_value(p):
                f = float(p.numerator_as_long()) / float(p.denominator_as_long())
                arg = rv(float(np.float64(10.) ** np.float64(f)))
            if arg is None and is_add:
                hit = c.fn_cache.get(('pow10', p.get_id()))      # only an already existing power of this summand
                if hit is not None and isinstance(hit[1], SymReal) and hit[1].k is None:
                    arg = hit[1].t
            if arg is None:
                prod = None
                break
            prod = arg if prod is None else prod * arg
        if prod is not None:
            res = SymReal(simp(prod))
    if res is None:
        p = z3.FreshReal('pow10')
        c.add_def_rel(p, p > 0, 'pow10', [x.t])
        c.pow10_inverse[p.get_id()] = x.t
        if c.ex.opts.get('pow10_monotone', False):
            for (t2, p2) in c.pow10_atoms:
                c.facts.append(z3.And((x.t < t2) == (p < p2), (x.t == t2) == (p == p2)))
            for (b2, t2, v2) in c.log_atoms:
                if b2 == 10:     # 10**t versus an argument of log10: p < t2  <=>  t < log10 t2
                    c.facts.append(z3.Implies(t2 > 0, z3.And((p < t2) == (x.t < v2), (p == t2) == (x.t == v2))))
        c.pow10_atoms.append((x.t, p))
        if x.k is None:
            res = SymReal(p)
        else:
            k = z3.If(x.k == NAN, _K[NAN], z3.If(x.k == PINF, _K[PINF], _K[FIN]))
            res = _knorm(z3.If(x.k == NINF, rv(0), p), k)
    c.fn_cache[key] = (x, res)
    return res


def s_abs(x):
    return abs(x)


def s_isnan(x):
    if isinstance(x, Fraction):
        return False
    if isinstance(x, SymReal) and _forkmode(x):
        v = _norm(x)
        return (not isinstance(v, SymReal)) and v != v
    if isinstance(x, SymReal):
        return mk_bool(x.is_nan())
    if is_sym(x):
        return False
    return bool(np.isnan(x))


def s_isinf(x):
    if isinstance(x, Fraction):
        return False
    if isinstance(x, SymReal) and _forkmode(x):
        v = _norm(x)
        return (not isinstance(v, SymReal)) and v in (_INF, -_INF)
    if isinstance(x, SymReal):
        return mk_bool(z3.Or(x.is_pinf(), x.is_ninf()))
    if is_sym(x):
        return False
    return bool(np.isinf(x))


def s_isfinite(x):
    if isinstance(x, Fraction):
        return True
    if isinstance(x, SymReal) and _forkmode(x):
        return isinstance(_norm(x), SymReal)
    if isinstance(x, SymReal):
        return mk_bool(x.is_fin())
    if is_sym(x):
        return True
    return bool(np.isfinite(x))


def s_min2(a, b):
    """Python's builtin min(a, b): b if b < a else a."""
    if not is_sym(a) and not is_sym(b):
        return b if b < a else a
    return ite(b < a, b, a)


def s_max2(a, b):
    if not is_sym(a) and not is_sym(b):
        return b if b > a else a
    return ite(b > a, b, a)


def s_npmin2(a, b):
    """numpy.minimum: NaN-propagating."""
    if not is_sym(a) and not is_sym(b):
        return np.minimum(a, b)
    ra, rb = real(a), real(b)
    r = ite(ra < rb, ra, rb)
    if ra.k is None and rb.k is None:
        return r
    return ite(mk_bool(z3.Or(ra.is_nan(), rb.is_nan())), float('nan'), r)


def s_npmax2(a, b):
    if not is_sym(a) and not is_sym(b):
        return np.maximum(a, b)
    ra, rb = real(a), real(b)
    r = ite(ra > rb, ra, rb)
    if ra.k is None and rb.k is None:
        return r
    return ite(mk_bool(z3.Or(ra.is_nan(), rb.is_nan())), float('nan'), r)


def s_floor(x):
    if not is_sym(x):
        return math.floor(x) if np.isfinite(x) else x
    if isinstance(x, SymInt):
        return x
    x = real(x)
    return SymInt(simp(z3.ToInt(x.t)))


def s_ceil(x):
    if not is_sym(x):
        return math.ceil(x) if np.isfinite(x) else x
    if isinstance(x, SymInt):
        return x
    x = real(x)
    return SymInt(simp(-z3.ToInt(-x.t)))


def same(a, b):
    """NaN-aware identity of two scalar values, as a z3 Bool term."""
    if isinstance(a, (SymBool, bool, np.bool_)) and isinstance(b, (SymBool, bool, np.bool_)):
        return bterm(a) == bterm(b)
    if isinstance(a, (SymInt, int, np.integer)) and isinstance(b, (SymInt, int, np.integer)):
        return iterm(a) == iterm(b)
    if isinstance(a, (str, bytes)) or isinstance(b, (str, bytes)):
        return z3.BoolVal(a == b)
    if a is None or b is None:
        return z3.BoolVal(a is b)
    ra, rb = real(a), real(b)
    if ra.k is None and rb.k is None:
        return ra.t == rb.t
    ka, kb = _kt(ra), _kt(rb)
    return z3.And(ka == kb, z3.Or(ka != FIN, ra.t == rb.t))


def term_vars(t, acc=None):
    """Set of uninterpreted constants (by id) in a z3 term."""
    if acc is None:
        acc = {}
    seen = set()
    stack = [t]
    while stack:
        e = stack.pop()
        i = e.get_id()
        if i in seen:
            continue
        seen.add(i)
        if z3.is_const(e) and e.decl().kind() == z3.Z3_OP_UNINTERPRETED:
            acc[i] = e
        else:
            stack.extend(e.children())
    return acc


# ----------------------------------------------------------------------------
# exploration context


class Stats:
    def __init__(self):
        self.paths = 0
        self.aborted = 0
        self.queries = {'unsat': 0, 'sat': 0, 'unknown': 0}
        self.solver_time = 0.0
        self.feas_checks = 0
        self.witnesses = 0
        self.samples = []


class Context:
    """State of one execution path."""

    def __init__(self, explorer, prefix):
        self.ex = explorer
        self.prefix = list(prefix)
        self.pos = 0
        self.pre = []          # preconditions (assumed)
        self.pc = []           # path condition conjuncts
        self.defs = []         # (var, defining formula, tag, deps) : cut points and function contracts
        self.defined = []      # definedness assumptions (den != 0, log arg > 0)
        self.fn_cache = {}
        self.log_const_inverse = {}
        self._tv = {}
        self.facts = []
        self.log_atoms = []
        self.pow10_atoms = []
        self.pow10_inverse = {}
        self.decided = {}
        self.div_mode = explorer.opts.get('div_mode', 'assume')
        self.log_mode = explorer.opts.get('log_mode', 'assume')
        self.log_product_rule = explorer.opts.get('log_product_rule', True)
        self.kind_mode = explorer.opts.get('kind_mode', 'term')
        self.printing = False
        self.tokens = []
        self.notes = []
        self._solver = None
        self._nadded = 0

    # -- solver for feasibility (pre + pc only; definitions are left out on purpose)
    def _feas(self, extra):
        s = self._solver
        if s is None:
            s = self._solver = z3.Solver()
            s.set('timeout', self.ex.feas_timeout_ms)
            self._npre = 0
            self._npc = 0
            self._ndef = 0
            self._nfacts = 0
        for f in self.pre[self._npre:]:
            s.add(f)
        self._npre = len(self.pre)
        for f in self.pc[self._npc:]:
            s.add(f)
        self._npc = len(self.pc)
        if self.ex.opts.get('feas_defs', False):
            for d in self.defs[self._ndef:]:
                s.add(d[1])
            self._ndef = len(self.defs)
        for f in self.facts[self._nfacts:]:
            s.add(f)
        self._nfacts = len(self.facts)
        t0 = time.time()
        r = _checked(s, self.ex.feas_timeout_ms, extra)
        self.ex.stats.solver_time += time.time() - t0
        self.ex.stats.feas_checks += 1
        return r != z3.unsat

    def assume(self, cond):
        """Precondition (part of the claim's quantifier)."""
        if isinstance(cond, (bool, np.bool_)):
            if not cond:
                raise Abort()
            return
        self.pre.append(bterm(cond))

    def require(self, cond):
        """Constrain the current path (nondeterministic choice made by the environment model)."""
        if isinstance(cond, (bool, np.bool_)):
            if not cond:
                raise Abort()
            return
        t = bterm(cond)
        if not self._feas(t):
            raise Abort()
        self.pc.append(t)

    def decide(self, cond):
        cond = simp(cond)
        if z3.is_true(cond):
            return True
        if z3.is_false(cond):
            return False
        cid = cond.get_id()
        hit = self.decided.get(cid)
        if hit is not None:
            return hit[1]
        if self.pos < len(self.prefix):
            d = self.prefix[self.pos]
        else:
            t_ok = self._feas(cond)
            f_ok = self._feas(z3.Not(cond))
            if not (t_ok or f_ok):
                raise Abort()
            d = t_ok
            if t_ok and f_ok:
                self.ex.work.append(self.prefix[:self.pos] + [False])
            self.prefix = self.prefix[:self.pos] + [d]
        self.pos += 1
        if self.pos > self.ex.max_depth:
            raise Inconclusive("decision depth bound exceeded (%d)" % self.ex.max_depth)
        self.pc.append(cond if d else simp(z3.Not(cond)))
        self.decided[cid] = (cond, d)
        return d

    def choose(self, n):
        """Nondeterministic choice of an index in range(n) (all are explored)."""
        for i in range(n - 1):
            b = z3.FreshBool('choice')
            if self.decide(b):
                return i
        return n - 1

    def concretize_int(self, t):
        t = simp(t)
        if z3.is_int_value(t):
            return t.as_long()
        while True:
            s = z3.Solver()
            s.set('timeout', self.ex.feas_timeout_ms * 5)
            s.add(self.pre)
            s.add(self.pc)
            for d in self.defs:
                if d[2] in ('int',):
                    s.add(d[1])
            s.add(self.facts)
            r = s.check()
            if r == z3.unsat:
                raise Abort()
            if r != z3.sat:
                raise Inconclusive("cannot concretise an integer (solver unknown)")
            v = s.model().eval(t, model_completion=True).as_long()
            if self.decide(t == v):
                return v

    # -- definitions
    def add_def(self, var, term, tag, deps=None):
        self.defs.append((var, var == term, tag, None))
        # derived sign fact: a definition that is structurally a sum of squares (times non-negative factors) is >= 0.
        # A consequence of the definition (guarded by its denominators being non-zero), stated separately so that queries
        # about the sign need not carry the non-linear definition.
        try:
            guards = []
            if self.ex is not None and self.ex.opts.get('nonneg_facts') and z3.is_real(term) and self._nonneg(term, guards):
                nn = getattr(self, 'nonneg_vars', None)
                if nn is None:
                    nn = self.nonneg_vars = {}
                nn[var.get_id()] = guards
                fact = var >= 0
                if guards:
                    fact = z3.Implies(z3.And([g != 0 for g in guards]) if len(guards) > 1 else guards[0] != 0, fact)
                self.facts.append(fact)
        except z3.Z3Exception:
            pass

    def _nonneg(self, t, guards, depth=0):
        if depth > 40:
            return False
        if z3.is_rational_value(t) or z3.is_int_value(t):
            return t.as_fraction() >= 0 if z3.is_rational_value(t) else t.as_long() >= 0
        if z3.is_const(t):
            nn = getattr(self, 'nonneg_vars', {})
            g = nn.get(t.get_id())
            if g is None:
                return False
            guards.extend(g)
            return True
        if not z3.is_app(t):
            return False
        k = t.decl().kind()
        ch = t.children()
        if k == z3.Z3_OP_ADD:
            return all(self._nonneg(c, guards, depth + 1) for c in ch)
        if k == z3.Z3_OP_MUL:
            count = {}
            for c in ch:
                e = count.setdefault(c.get_id(), [c, 0])
                e[1] += 1
            return all(n % 2 == 0 or self._nonneg(c, guards, depth + 1) for c, n in count.values())
        if k == z3.Z3_OP_DIV:
            if self._nonneg(ch[0], guards, depth + 1) and self._nonneg(ch[1], guards, depth + 1):
                guards.append(ch[1])
                return True
            return False
        if k == z3.Z3_OP_POWER:
            if z3.is_int_value(ch[1]) or z3.is_rational_value(ch[1]):
                q = ch[1].as_fraction()
                if q.denominator == 1 and q.numerator >= 0 and q.numerator % 2 == 0:
                    return True
            return False
        if k == z3.Z3_OP_ITE:
            return self._nonneg(ch[1], guards, depth + 1) and self._nonneg(ch[2], guards, depth + 1)
        if k == z3.Z3_OP_TO_REAL:
            return self._nonneg(ch[0], guards, depth + 1)
        return False

    def add_def_rel(self, var, formula, tag, deps=None):
        self.defs.append((var, formula, tag, None))

    def supersede(self, *values):
        """Lemma chaining: a proved equation in `pre` determines these cut variables; the relevance-staged queries then
        leave their definitions out (hypotheses are only dropped, so an unsat verdict stays valid; the final stage is full)."""
        s = getattr(self, 'superseded', None)
        if s is None:
            s = self.superseded = set()
        for v in values:
            t = v.t if isinstance(v, (SymReal, SymInt)) else v
            if z3.is_const(t):
                s.add(t.get_id())

    def assume_defined(self, cond, what):
        cond = simp(cond)
        if z3.is_true(cond):
            return
        if z3.is_false(cond):
            raise Inconclusive("undefined operation (%s) on every input of this path" % what)
        self.defined.append((cond, what))

    def cut(self, value, tag):
        """Replace a symbolic scalar by a fresh variable with a recorded definition."""
        if isinstance(value, SymReal):
            if z3.is_const(value.t) and (value.k is None or z3.is_const(value.k)):
                return value
            key = ('cut', value.t.get_id(), None if value.k is None else value.k.get_id())
            hit = self.fn_cache.get(key)
            if hit is not None:          # identical term cut before: same variable (keeps relational runs aligned)
                return hit[1]
            r = self._cut_real(value, tag)
            self.fn_cache[key] = (value, r)
            return r
        return self._cut_other(value, tag)

    def _cut_real(self, value, tag):
        if True:
            v = z3.FreshReal(tag)
            self.add_def(v, value.t, 'cut')
            if value.k is None:
                return SymReal(v)
            if z3.is_int_value(value.k):
                return SymReal(v, value.k)
            kv = z3.FreshInt(tag + '#k')
            self.add_def(kv, value.k, 'cut')
            return SymReal(v, kv)

    def _cut_other(self, value, tag):
        if isinstance(value, SymInt):
            if z3.is_const(value.t):
                return value
            v = z3.FreshInt(tag)
            self.add_def(v, value.t, 'int')
            return SymInt(v)
        if isinstance(value, SymBool):
            if z3.is_const(value.t):
                return value
            v = z3.FreshBool(tag)
            self.add_def(v, value.t, 'cut')
            return SymBool(v)
        return value

    # -- printing of symbolic numbers: injective sentinel floats (1000+id)*1e197, which survive
    #    %e / %f / format() with >= 3 decimals and parse back exactly
    def token_float(self, value):
        for i, v in enumerate(self.tokens):
            if v is value:
                return (1000 + i) * 1e197
        self.tokens.append(value)
        if len(self.tokens) > 8000:
            raise Inconclusive("too many printed symbolic numbers")
        return (1000 + len(self.tokens) - 1) * 1e197

    def token(self, value, spec):
        return format(self.token_float(value), spec) if spec else repr(self.token_float(value))

    def decode(self, number):
        """Inverse of token_float for a parsed number (None if it is not a sentinel)."""
        try:
            f = float(number)
        except (TypeError, ValueError):
            return None
        if not (f >= 0.99e200 and f < 1e201):
            return None
        i = int(round(f / 1e197)) - 1000
        if 0 <= i < len(self.tokens) and abs(f / 1e197 - (1000 + i)) < 1e-6:
            return self.tokens[i]
        return None

    # -- instantiated facts about the uninterpreted transcendental atoms
    def transcendental_facts(self):
        return list(self.facts)

    # -- queries
    def all_formulas(self):
        return list(self.pre) + list(self.pc) + [d[1] for d in self.defs] + \
            [d[0] for d in self.defined] + self.transcendental_facts()

    def relevant(self, goal_terms, with_defs=True, depth=None):
        """pre + definedness + those pc conjuncts / definitions in the goal's cone of influence.

        Cone: variables of the goal, closed under definitions; path-condition conjuncts that mention a
        cone variable are taken, and the definitions of *their* variables as well (one round)."""
        cone = {}
        for g in goal_terms:
            term_vars(g, cone)
        tv = self._tv

        def cached_vars(t):
            i = t.get_id()
            hit = tv.get(i)
            if hit is None:
                hit = (t, term_vars(t))
                tv[i] = hit
            return hit[1]
        defvars = [(d, cached_vars(d[1])) for d in self.defs]
        used = set()
        sup = getattr(self, 'superseded', ())

        def close():
            # depth=None: full closure under definitions; depth=k: only k rounds (a shallow, cheaper abstraction:
            # deeper cut variables stay unconstrained, which is sound for an unsat verdict)
            changed = True
            rounds = 0
            while changed and (depth is None or rounds < depth):
                changed = False
                rounds += 1
                new = {}
                for idx, (d, vs) in enumerate(defvars):
                    if idx not in used and d[0].get_id() in cone:
                        used.add(idx)
                        if d[0].get_id() in sup:
                            continue          # a proved lemma in `pre` pins this variable: its definition is left out
                        new.update(vs)
                        changed = True
                cone.update(new)
        close()
        out = list(self.pre)
        extra = {}
        for f in self.pc:
            vs = cached_vars(f)
            if any(i in cone for i in vs):
                out.append(f)
                extra.update(vs)
        cone.update(extra)
        close()
        for (cnd, _w) in self.defined:
            if any(i in cone for i in cached_vars(cnd)):
                out.append(cnd)
        if with_defs:
            out += [defvars[i][0][1] for i in sorted(used) if defvars[i][0][0].get_id() not in sup]
        out += self.transcendental_facts()
        return out

    def prove(self, goal, name, timeout_ms=None, use_relevance=True, tactic=None):
        """Discharge `pre & pc & defs => goal`. Returns ('unsat'|'sat'|'unknown', model|None)."""
        ex = self.ex
        if isinstance(goal, (bool, np.bool_)):
            goal = z3.BoolVal(bool(goal))
        elif isinstance(goal, SymBool):
            goal = goal.t
        goal = simp(goal)
        st = ex.stats
        if z3.is_true(goal):
            st.queries['unsat'] += 1
            ex.record_query(name, 'unsat', 0.0, trivial=True)
            return 'unsat', None
        timeout_ms = timeout_ms or ex.query_timeout_ms
        if z3.is_false(goal):
            # a structurally false claim: any input that drives the code down this path is a counterexample.  Look for one
            # with the definitions (short limit), else from the preconditions and the path condition alone (the replay on
            # the real code decides whether it is genuine)
            r, m, dt = ex.solve(self.all_formulas(), min(timeout_ms, 15000), tactic, fallback=False)
            if r == 'unknown':
                r2, m2, dt2 = ex.solve(list(self.pre) + list(self.pc) + self.transcendental_facts(), min(timeout_ms, 15000), tactic, fallback=False)
                dt += dt2
                if r2 == 'sat':
                    r, m = 'sat', m2
                elif r2 == 'unsat':
                    r = 'unsat'
            st.queries[r] += 1
            ex.record_query(name, r, dt)
            return r, m
        neg = z3.Not(goal)
        stages = []
        if use_relevance:
            rel = self.relevant([goal])
            nodefs = self.relevant([goal], with_defs=False)
            if len(nodefs) < len(rel):
                stages.append(('nodefs', nodefs + [neg]))
                last = len(nodefs)
                for dep in ((1, 2) if ex.opts.get('shallow_stages') else ()):
                    sh = self.relevant([goal], depth=dep)
                    if last < len(sh) < len(rel):
                        stages.append(('shallow', sh + [neg]))
                        last = len(sh)
            stages.append(('relevant', rel + [neg]))
        stages.append(('full', self.all_formulas() + [neg]))
        res, model = 'unknown', None
        t_total = 0.0
        for stage, fs in stages:
            r, m, dt = ex.solve(fs, min(timeout_ms, 5000) if stage == 'nodefs' else min(timeout_ms, 10000) if stage == 'shallow' else timeout_ms,
                                tactic, fallback=(stage not in ('nodefs', 'shallow')))
            t_total += dt
            if r == 'unsat':
                res, model = 'unsat', None
                break
            if stage == 'full':
                res, model = r, m
        st.queries[res] += 1
        ex.record_query(name, res, t_total)
        return res, model

    def reachable(self, timeout_ms=15000):
        """Vacuity witness: is the full path condition satisfiable?  (short time limit; unknown = no witness)"""
        r, m, dt = self.ex.solve(self.all_formulas(), timeout_ms, None, fallback=False)
        if r != 'sat':
            # cheaper witness: pre + path condition without the (non-linear) definitions
            r2, m2, dt2 = self.ex.solve(list(self.pre) + list(self.pc), timeout_ms, None, fallback=False)
            if r2 == 'sat' and r == 'unknown':
                return 'sat-without-definitions', m2
        return r, m


def _checked(solver, timeout_ms, *assumptions):
    """solver.check() with a watchdog: z3's own timeout is not always honoured inside nlsat."""
    import threading
    timer = threading.Timer(timeout_ms / 1000.0 + 3.0, solver.ctx.interrupt)
    timer.daemon = True
    timer.start()
    try:
        return solver.check(*assumptions)
    except z3.Z3Exception:
        return z3.unknown
    finally:
        timer.cancel()


def _raised_in_repo(exc):
    import os as _os
    repo = _os.path.realpath(_os.environ.get('SEDFITTER_REPO', '/repo'))
    tb = exc.__traceback__
    while tb is not None:
        fn = tb.tb_frame.f_code.co_filename
        if _os.path.realpath(fn).startswith(repo + _os.sep):
            return True
        tb = tb.tb_next
    return False


class Explorer:
    def __init__(self, feas_timeout_ms=2000, query_timeout_ms=60000, max_paths=200000, max_depth=4000,
                 **opts):
        self.feas_timeout_ms = feas_timeout_ms
        self.query_timeout_ms = query_timeout_ms
        self.max_paths = max_paths
        self.max_depth = max_depth
        self.opts = opts
        self.stats = Stats()
        self.work = []
        self.query_log = []
        self.deadline = None
        import os as _os
        self.xcheck_budget = int(_os.environ.get('VERIF_XCHECK', '0') or 0)
        self.xcheck = {'agree_unsat': 0, 'cvc5_unknown': 0, 'DISAGREE_sat': 0, 'skipped': 0}

    def record_query(self, name, res, dt, trivial=False):
        self.query_log.append((name, res, round(dt, 4)))

    def solve(self, formulas, timeout_ms, tactic=None, fallback=True):
        t0 = time.time()
        if tactic:
            s = z3.Tactic(tactic).solver()
        else:
            s = z3.Solver()
        s.set('timeout', int(timeout_ms))
        s.add(formulas)
        r = _checked(s, timeout_ms)
        dt = time.time() - t0
        self.stats.solver_time += dt
        if r == z3.unsat:
            self._cross_check(s)
            return 'unsat', None, dt
        if r == z3.sat:
            return 'sat', s.model(), dt
        # fall back: nlsat tactic
        if tactic is None and fallback:
            try:
                t1 = time.time()
                s2 = z3.Tactic('qfnra-nlsat').solver()
                s2.set('timeout', int(timeout_ms))
                s2.add(formulas)
                r2 = _checked(s2, timeout_ms)
                dt2 = time.time() - t1
                self.stats.solver_time += dt2
                dt += dt2
                if r2 == z3.unsat:
                    return 'unsat', None, dt
                if r2 == z3.sat:
                    return 'sat', s2.model(), dt
            except z3.Z3Exception:
                pass
        return 'unknown', None, dt

    def _cross_check(self, solver):
        """Thorough tier: re-decide a sample of the unsat queries with cvc5 (a second, independent solver)."""
        budget = self.xcheck_budget
        if budget <= 0:
            return
        self.xcheck_budget -= 1
        try:
            import cvc5
            text = "(set-logic ALL)\n" + solver.to_smt2()
            if len(text) > 400000:
                self.xcheck['skipped'] += 1
                return
            slv = cvc5.Solver()
            slv.setOption('tlimit-per', '8000')
            parser = cvc5.InputParser(slv)
            parser.setStringInput(cvc5.InputLanguage.SMT_LIB_2_6, text, "q")
            sm = parser.getSymbolManager()
            res = 'unknown'
            while True:
                cmd = parser.nextCommand()
                if cmd.isNull():
                    break
                out = str(cmd.invoke(slv, sm)).strip()
                if out in ('sat', 'unsat', 'unknown'):
                    res = out
            key = {'unsat': 'agree_unsat', 'sat': 'DISAGREE_sat', 'unknown': 'cvc5_unknown'}[res]
            self.xcheck[key] += 1
        except Exception as e:  # noqa: BLE001
            self.xcheck['error'] = self.xcheck.get('error', 0) + 1

    def run(self, fn):
        """Yield (ctx, outcome) for every feasible path of fn(ctx).

        outcome = ('ok', value) | ('exc', exception)
        """
        global _CTX
        self.work = [[]]
        while self.work:
            prefix = self.work.pop()
            c = Context(self, prefix)
            _CTX = c
            try:
                try:
                    val = fn(c)
                    out = ('ok', val)
                except Abort:
                    self.stats.aborted += 1
                    continue
                except (Inconclusive, Refuted):
                    raise
                except Exception as e:  # noqa: BLE001 - exceptions of the code under test are outcomes
                    if not _raised_in_repo(e):
                        # an exception that never passed through a frame of the code under test is a harness / shim error
                        import traceback as _tb
                        raise Inconclusive("harness error %s: %s\n%s" % (type(e).__name__, e, ''.join(_tb.format_tb(e.__traceback__)[-3:])))
                    out = ('exc', e)
                self.stats.paths += 1
                if self.stats.paths > self.max_paths:
                    raise Inconclusive("path bound exceeded (%d)" % self.max_paths)
                yield c, out
            finally:
                _CTX = None

    def explore(self, fn):
        """Run fn(ctx) on every path; fn does its own proving."""
        for _c, out in self.run(fn):
            if out[0] == 'exc':
                raise out[1]


def model_value(m, x, default=0.0):
    """Evaluate a (concrete | symbolic) scalar in a z3 model -> python float/int/bool."""
    if isinstance(x, SymBool):
        return bool(z3.is_true(m.eval(x.t, model_completion=True)))
    if isinstance(x, SymInt):
        return m.eval(x.t, model_completion=True).as_long()
    if isinstance(x, SymReal):
        if x.k is not None:
            k = m.eval(x.k, model_completion=True).as_long()
            if k == NAN:
                return float('nan')
            if k == PINF:
                return float('inf')
            if k == NINF:
                return float('-inf')
        v = m.eval(x.t, model_completion=True)
        return z3num(v)
    return x


def z3num(v):
    if z3.is_int_value(v):
        return v.as_long()
    if z3.is_rational_value(v):
        return float(Fraction(v.numerator_as_long(), v.denominator_as_long()))
    if z3.is_algebraic_value(v):
        a = v.approx(20)
        return float(Fraction(a.numerator_as_long(), a.denominator_as_long()))
    raise ValueError("cannot evaluate %s" % v)
