"""symx.symnp -- a stand-in for the `numpy` module that understands symbolic scalars.

SymArray is a real numpy.ndarray subclass with dtype=object: shapes, views,
slicing, broadcasting and fancy indexing with concrete indices are numpy's own
behaviour; only element arithmetic, comparisons, masks and the data-dependent
routines (searchsorted, argsort, argmin, interp ...) are modelled here.
"""
from __future__ import annotations

import builtins
import itertools
import math
import types

import numpy as _np
import z3

from . import core as C
from .core import (SymBool, SymInt, SymReal, Inconclusive, is_sym, ite, real, mk_bool)

_real_np = _np

# ----------------------------------------------------------------------------
# element-wise kernels (python level, concrete or symbolic)


def _f64(x):
    return _np.float64(x)


def _num(x):
    """Normalise a concrete element for arithmetic (python/numpy scalar)."""
    return x


def _fr(x):
    """Exact rational of a finite concrete number, or None."""
    from fractions import Fraction
    if isinstance(x, Fraction):
        return x
    if isinstance(x, (bool, _np.bool_)):
        return Fraction(int(x))
    if isinstance(x, (int, _np.integer)):
        return Fraction(int(x))
    if isinstance(x, (float, _np.floating)):
        xf = float(x)
        if xf != xf or xf in (float('inf'), float('-inf')):
            return None
        return Fraction(xf)
    return None


def _exact2(a, b):
    """Concrete-by-concrete arithmetic inside symbolic arrays is exact (the model is the reals): both
    operands as Fractions, or None if one is non-finite / not a number."""
    if isinstance(a, (bool, _np.bool_, int, _np.integer)) and isinstance(b, (bool, _np.bool_, int, _np.integer)):
        return None                    # plain integer arithmetic stays integer
    fa, fb = _fr(a), _fr(b)
    if fa is None or fb is None:
        return None
    return fa, fb


def e_add(a, b):
    if not is_sym(a) and not is_sym(b):
        ex = _exact2(a, b)
        if ex is not None:
            return ex[0] + ex[1]
        with _np.errstate(all='ignore'):
            return _f64(a) + _f64(b) if isinstance(a, float) or isinstance(b, float) else a + b
    return a + b


def e_sub(a, b):
    if not is_sym(a) and not is_sym(b):
        ex = _exact2(a, b)
        if ex is not None:
            return ex[0] - ex[1]
        with _np.errstate(all='ignore'):
            return _f64(a) - _f64(b) if isinstance(a, float) or isinstance(b, float) else a - b
    return a - b


def e_mul(a, b):
    if not is_sym(a) and not is_sym(b):
        ex = _exact2(a, b)
        if ex is not None:
            return ex[0] * ex[1]
        with _np.errstate(all='ignore'):
            return _f64(a) * _f64(b) if isinstance(a, float) or isinstance(b, float) else a * b
    if isinstance(a, (bool, _np.bool_)):
        return b if a else (0.0 if isinstance(b, SymReal) else 0)
    if isinstance(b, (bool, _np.bool_)):
        return a if b else (0.0 if isinstance(a, SymReal) else 0)
    return a * b


def e_div(a, b):
    if not is_sym(a) and not is_sym(b):
        fa, fb = _fr(a), _fr(b)
        if fa is not None and fb is not None and fb != 0:
            return fa / fb
        with _np.errstate(all='ignore'):
            return _f64(a) / _f64(b)
    return real(a) / real(b)


def e_pow(a, b):
    if not is_sym(a) and not is_sym(b):
        with _np.errstate(all='ignore'):
            return _f64(a) ** _f64(b)
    if is_sym(b):
        return real(b).__rpow__(a)
    return real(a) ** b


def e_neg(a):
    return -a


def e_abs(a):
    return abs(a)


def _cmp(op):
    def f(a, b):
        if not is_sym(a) and not is_sym(b):
            with _np.errstate(all='ignore'):
                return bool(op(a, b))
        if isinstance(a, (str, bytes)) or isinstance(b, (str, bytes)) or a is None or b is None:
            raise Inconclusive("comparison of a symbolic value with a non-number")
        if isinstance(a, (SymBool, bool, _np.bool_)) and isinstance(b, (SymBool, bool, _np.bool_)):
            return op(C.to_int(a) if is_sym(a) else int(a), C.to_int(b) if is_sym(b) else int(b))
        if is_sym(a):
            return op(a, b)
        # concrete op symbolic: flip through the symbolic operand
        return op(real(a) if isinstance(b, SymReal) else a, b)
    return f


import operator as _op

e_lt, e_le, e_gt, e_ge, e_eq, e_ne = (_cmp(o) for o in (_op.lt, _op.le, _op.gt, _op.ge, _op.eq, _op.ne))


def e_and(a, b):
    if not is_sym(a) and not is_sym(b):
        return bool(a) and bool(b)
    return mk_bool(z3.And(C.bterm(a), C.bterm(b)))


def e_or(a, b):
    if not is_sym(a) and not is_sym(b):
        return bool(a) or bool(b)
    return mk_bool(z3.Or(C.bterm(a), C.bterm(b)))


def e_xor(a, b):
    if not is_sym(a) and not is_sym(b):
        return bool(a) != bool(b)
    return mk_bool(z3.Xor(C.bterm(a), C.bterm(b)))


def e_not(a):
    if not is_sym(a):
        return not bool(a)
    return mk_bool(z3.Not(C.bterm(a)))


def e_sqrt(a):
    return C.s_sqrt(a)


def e_log10(a):
    return C.s_log10(a)


def e_log(a):
    return C.s_log(a)


def e_square(a):
    return e_mul(a, a)


def e_sign(a):
    if not is_sym(a):
        return _np.sign(a)
    a = real(a)
    return ite(a > 0, 1.0, ite(a < 0, -1.0, 0.0))


_BOOL_UFUNCS = {_np.less, _np.less_equal, _np.greater, _np.greater_equal, _np.equal, _np.not_equal,
                _np.logical_and, _np.logical_or, _np.logical_not, _np.logical_xor,
                _np.isnan, _np.isinf, _np.isfinite}

_KERNELS = {
    _np.add: e_add, _np.subtract: e_sub, _np.multiply: e_mul, _np.true_divide: e_div,
    _np.power: e_pow, _np.negative: e_neg, _np.positive: (lambda a: a), _np.absolute: e_abs,
    _np.less: e_lt, _np.less_equal: e_le, _np.greater: e_gt, _np.greater_equal: e_ge,
    _np.equal: e_eq, _np.not_equal: e_ne,
    _np.logical_and: e_and, _np.logical_or: e_or, _np.logical_not: e_not, _np.logical_xor: e_xor,
    _np.bitwise_and: e_and, _np.bitwise_or: e_or, _np.invert: e_not, _np.bitwise_xor: e_xor,
    _np.sqrt: e_sqrt, _np.log10: e_log10, _np.log: e_log, _np.square: e_square,
    _np.isnan: C.s_isnan, _np.isinf: C.s_isinf, _np.isfinite: C.s_isfinite,
    _np.minimum: C.s_npmin2, _np.maximum: C.s_npmax2,
    _np.floor: C.s_floor, _np.ceil: C.s_ceil, _np.sign: e_sign,
    _np.conjugate: (lambda a: a),
}
_PYFUNC = {}


def _pyfunc(uf):
    f = _PYFUNC.get(uf)
    if f is None:
        k = _KERNELS.get(uf)
        if k is None:
            raise Inconclusive("numpy ufunc %s is not modelled for symbolic arrays" % uf.__name__)
        f = _np.frompyfunc(k, uf.nin, 1)
        _PYFUNC[uf] = f
    return f


def _has_sym(a):
    if isinstance(a, _np.ndarray):
        if a.dtype != object:
            return False
        for x in a.flat:
            if is_sym(x):
                return True
        return False
    return is_sym(a)


def _plain(a):
    """Strip the subclass (and units are handled elsewhere)."""
    if isinstance(a, _np.ndarray):
        return a.view(_np.ndarray) if type(a) is not _np.ndarray else a
    return a


def _obj(a):
    if isinstance(a, _np.ndarray):
        a = _plain(a)
        return a if a.dtype == object else a.astype(object)
    if isinstance(a, (list, tuple)):
        r = _np.empty(len(a), dtype=object) if not a or not isinstance(a[0], (list, tuple, _np.ndarray)) else None
        if r is not None:
            for i, x in enumerate(a):
                r[i] = x
            return r
        return _np.array([list(_obj(x)) for x in a], dtype=object)
    r = _np.empty((), dtype=object)
    r[()] = a
    return r


def finish(res, boolean=False):
    """Wrap a raw object ndarray produced by a kernel."""
    if not isinstance(res, _np.ndarray):
        if isinstance(res, (bool, _np.bool_)) and boolean:
            return _np.bool_(res)
        return res
    if res.dtype != object:
        return res
    if res.ndim == 0:
        x = res[()]
        return x
    if not _has_sym(res):
        try:
            if boolean or all(isinstance(x, (bool, _np.bool_)) for x in res.flat):
                return res.astype(bool)
            if all(isinstance(x, (int, _np.integer)) and not isinstance(x, (bool, _np.bool_)) for x in res.flat):
                return res.astype(int)
        except (TypeError, ValueError):
            pass
    return res.view(SymArray)


def apply_ufunc(uf, *args):
    f = _pyfunc(uf)
    res = f(*[_obj(a) if isinstance(a, (_np.ndarray, list, tuple)) else a for a in args])
    return finish(res, uf in _BOOL_UFUNCS)


def apply_binary(uf, a, b):
    """Binary ufunc where one operand may be a quantity: route through its __array_ufunc__."""
    for o in (a, b):
        if isinstance(o, SymArray) and type(o) is not SymArray:
            return o.__array_ufunc__(uf, '__call__', a, b)
        if isinstance(o, _np.ndarray) and type(o) not in (_np.ndarray, SymArray):
            raise Inconclusive("symbolic scalar combined with a %s" % type(o).__name__)
    return apply_ufunc(uf, a, b)


class SymArray(_np.ndarray):
    __array_priority__ = 100

    def __new__(cls, data):
        return _obj(data).view(cls)

    def __array_finalize__(self, obj):
        pass

    def __array_ufunc__(self, ufunc, method, *inputs, out=None, **kw):
        if out is not None:
            # in-place arithmetic (a += b, a *= b)
            res = self.__array_ufunc__(ufunc, method, *inputs, **kw)
            tgt = out[0]
            _np.ndarray.__setitem__(_plain(tgt), Ellipsis, _plain(res) if isinstance(res, _np.ndarray) else res)
            return tgt
        if method == '__call__':
            kw.pop('dtype', None)
            kw.pop('casting', None)
            if kw:
                raise Inconclusive("ufunc keyword %s not modelled" % list(kw))
            if ufunc.__name__ == 'clip' and len(inputs) == 3:
                # numpy.clip(a, lo, hi) == minimum(maximum(a, lo), hi)  (numpy documentation)
                return apply_ufunc(_np.minimum, apply_ufunc(_np.maximum, inputs[0], inputs[1]), inputs[2])
            return apply_ufunc(ufunc, *inputs)
        if method == 'reduce':
            (a,) = inputs
            axis = kw.get('axis', 0)
            return reduce_ufunc(ufunc, a, axis, kw.get('keepdims', False))
        raise Inconclusive("ufunc method %s not modelled" % method)

    # comparisons must not be coerced to bool dtype by numpy
    def __lt__(self, o):
        return apply_ufunc(_np.less, self, o)

    def __le__(self, o):
        return apply_ufunc(_np.less_equal, self, o)

    def __gt__(self, o):
        return apply_ufunc(_np.greater, self, o)

    def __ge__(self, o):
        return apply_ufunc(_np.greater_equal, self, o)

    def __eq__(self, o):
        return apply_ufunc(_np.equal, self, o)

    def __ne__(self, o):
        return apply_ufunc(_np.not_equal, self, o)

    __hash__ = None

    def __pow__(self, o):
        return apply_ufunc(_np.power, self, o)

    def __rpow__(self, o):
        return apply_ufunc(_np.power, o, self)

    def __bool__(self):
        if self.size != 1:
            raise ValueError("The truth value of an array with more than one element is ambiguous.")
        return bool(self.flat[0])

    # indexing -------------------------------------------------------------
    def __getitem__(self, idx):
        idx = concretize_index(idx)
        r = _np.ndarray.__getitem__(self, idx)
        if isinstance(r, _np.ndarray) and type(r) is not type(self):
            r = r.view(type(self))
        return r

    def __setitem__(self, idx, value):
        if isinstance(value, _np.ndarray):
            value = _plain(value)
        m = _sym_mask(idx)
        if m is not None:
            _masked_assign(self, m, value)
            return
        idx = concretize_index(idx)
        _np.ndarray.__setitem__(self, idx, value)

    # reductions / methods ---------------------------------------------------
    def sum(self, axis=None, **kw):
        return np_sum(self, axis=axis)

    def max(self, axis=None, **kw):
        return amax(self, axis=axis)

    def min(self, axis=None, **kw):
        return amin(self, axis=axis)

    def any(self, axis=None, **kw):
        return np_any(self, axis=axis)

    def all(self, axis=None, **kw):
        return np_all(self, axis=axis)

    def argmin(self, axis=None, **kw):
        return argmin(self, axis=axis)

    def argsort(self, axis=-1, **kw):
        return argsort(self, axis=axis)

    def searchsorted(self, v, side='left', sorter=None):
        return searchsorted(self, v, side=side)

    def astype(self, dtype, **kw):
        return astype(self, dtype)

    def copy(self, order='C'):
        return _np.ndarray.copy(self, order).view(type(self))

    def diagonal(self, *a, **k):
        return _np.ndarray.diagonal(_plain(self), *a, **k).view(type(self))

    def tolist(self):
        return _plain(self).tolist()

    def __deepcopy__(self, memo):
        r = _np.empty(self.shape, dtype=object)
        for i, x in enumerate(self.flat):
            r.flat[i] = x
        return r.view(type(self))

    def __reduce__(self):
        raise Inconclusive("real pickling of a symbolic array")

    def __repr__(self):
        return "SymArray(%s)" % (_plain(self).tolist(),)

    __str__ = __repr__

    def __format__(self, spec):
        if self.ndim == 0:
            return format(self[()], spec)
        return repr(self)


def _sym_mask(idx):
    """Return the mask if idx is (or ends with) a symbolic boolean mask, else None."""
    if isinstance(idx, _np.ndarray) and idx.dtype == object and idx.size and _is_boolish(idx):
        return idx if _has_sym(idx) else None
    return None


def _is_boolish(a):
    for x in a.flat:
        if not isinstance(x, (SymBool, bool, _np.bool_)):
            return False
    return True


def _masked_assign(arr, mask, value):
    """arr[mask] = value, with a symbolic boolean mask.

    Scalar / broadcastable value: element-wise ite merge (no fork).  A value
    with one entry per selected element needs the mask to be concrete: fork.
    """
    mask = _plain(mask)
    base = _plain(arr)
    if mask.shape != base.shape[:mask.ndim]:
        raise IndexError("boolean index did not match")
    use_ite = C.ctx().ex.opts.get('mask_assign', 'fork') == 'ite'
    if use_ite and (not isinstance(value, _np.ndarray) or value.ndim == 0):
        v = value[()] if isinstance(value, _np.ndarray) else value
        if base.ndim == mask.ndim:
            for pos in _np.ndindex(*mask.shape):
                base[pos] = ite(mask[pos], v, base[pos])
        else:
            for pos in _np.ndindex(*mask.shape):
                sub = base[pos]
                for p2 in _np.ndindex(*sub.shape):
                    sub[p2] = ite(mask[pos], v, sub[p2])
        return
    cm = concretize_mask(mask)
    _np.ndarray.__setitem__(base, cm, value)


def concretize_mask(mask):
    out = _np.zeros(mask.shape, dtype=bool)
    for pos in _np.ndindex(*mask.shape):
        out[pos] = bool(mask[pos])
    return out


def concretize_index(idx):
    if isinstance(idx, tuple):
        return tuple(concretize_index(i) for i in idx)
    if isinstance(idx, SymInt):
        return idx.__index__()
    if isinstance(idx, SymBool):
        return bool(idx)
    if isinstance(idx, slice):
        def c(v):
            return v.__index__() if isinstance(v, SymInt) else v
        return slice(c(idx.start), c(idx.stop), c(idx.step))
    if isinstance(idx, _np.ndarray) and idx.dtype == object:
        p = _plain(idx)
        if p.size and _is_boolish(p):
            return concretize_mask(p)
        out = _np.zeros(p.shape, dtype=int)
        for pos in _np.ndindex(*p.shape):
            x = p[pos]
            out[pos] = x.__index__() if isinstance(x, SymInt) else int(x)
        return out
    return idx


# ----------------------------------------------------------------------------
# reductions


def _reduce_axis(a, axis, f2, init=None, boolean=False):
    a = _obj(a)
    if axis is None:
        a = a.reshape(-1)
        axis = 0
    if axis < 0:
        axis += a.ndim
    n = a.shape[axis]
    moved = _np.moveaxis(a, axis, 0)
    out = _np.empty(moved.shape[1:], dtype=object)
    for pos in _np.ndindex(*moved.shape[1:]):
        acc = init
        for i in range(n):
            x = moved[(i,) + pos]
            acc = x if acc is None else f2(acc, x)
        out[pos] = acc
    if out.ndim == 0:
        r = out[()]
        if boolean and isinstance(r, bool):
            return _np.bool_(r)
        return r
    return finish(out, boolean)


def reduce_ufunc(uf, a, axis, keepdims=False):
    if keepdims:
        raise Inconclusive("keepdims not modelled")
    k = _KERNELS.get(uf)
    if k is None:
        raise Inconclusive("reduce of %s not modelled" % uf.__name__)
    init = {_np.add: 0, _np.multiply: 1, _np.logical_or: False, _np.logical_and: True,
            _np.bitwise_or: False, _np.bitwise_and: True}.get(uf)
    return _reduce_axis(a, axis, k, init, uf in _BOOL_UFUNCS or uf in (_np.bitwise_or, _np.bitwise_and))


def _is_symarr(a):
    return isinstance(a, _np.ndarray) and a.dtype == object


def np_sum(a, axis=None, **kw):
    if isinstance(a, _np.ndarray) and a.dtype != object or not isinstance(a, (_np.ndarray, SymBool, SymInt, SymReal, list, tuple)):
        return _np.sum(a, axis=axis, **kw)
    if is_sym(a):
        return C.to_int(a)
    if isinstance(a, (list, tuple)) and not builtins.any(is_sym(x) or _is_symarr(x) for x in a):
        return _np.sum(a, axis=axis, **kw)
    u = _unit_of(a)
    r = _reduce_axis(a, axis, e_add, 0)
    if isinstance(r, SymBool):
        r = C.to_int(r)
    return _requant(r, u)


def np_any(a, axis=None, **kw):
    if isinstance(a, (bool, _np.bool_)):
        return _np.bool_(a)
    if isinstance(a, SymBool):
        return a
    if isinstance(a, _np.ndarray) and a.dtype != object:
        return _np.any(a, axis=axis, **kw)
    return _reduce_axis(a, axis, e_or, False, True)


def np_all(a, axis=None, **kw):
    if isinstance(a, (bool, _np.bool_)):
        return _np.bool_(a)
    if isinstance(a, SymBool):
        return a
    if isinstance(a, _np.ndarray) and a.dtype != object:
        return _np.all(a, axis=axis, **kw)
    return _reduce_axis(a, axis, e_and, True, True)


def _unit_of(a):
    return getattr(a, 'unit', None) if isinstance(a, _np.ndarray) else None


def _requant(r, unit):
    if unit is None:
        return r
    from . import symunits
    return symunits.SymQuantity(r, unit)


def amax(a, axis=None, **kw):
    if isinstance(a, _np.ndarray) and a.dtype != object:
        return _np.max(a, axis=axis, **kw)
    return _requant(_reduce_axis(a, axis, C.s_npmax2), _unit_of(a))


def amin(a, axis=None, **kw):
    if isinstance(a, _np.ndarray) and a.dtype != object:
        return _np.min(a, axis=axis, **kw)
    return _requant(_reduce_axis(a, axis, C.s_npmin2), _unit_of(a))


def _nanmin2(a, b):
    if not is_sym(a) and not is_sym(b):
        return _np.fmin(a, b)
    ra, rb = real(a), real(b)
    r = ite(ra < rb, ra, rb)
    if ra.k is None and rb.k is None:
        return r
    return ite(mk_bool(ra.is_nan()), rb, ite(mk_bool(rb.is_nan()), ra, r))


def _nanmax2(a, b):
    if not is_sym(a) and not is_sym(b):
        return _np.fmax(a, b)
    ra, rb = real(a), real(b)
    r = ite(ra > rb, ra, rb)
    if ra.k is None and rb.k is None:
        return r
    return ite(mk_bool(ra.is_nan()), rb, ite(mk_bool(rb.is_nan()), ra, r))


def nanmin(a, axis=None, **kw):
    if isinstance(a, _np.ndarray) and a.dtype != object:
        return _np.nanmin(a, axis=axis, **kw)
    a = _col_values(a)
    return _reduce_axis(a, axis, _nanmin2)


def nanmax(a, axis=None, **kw):
    if isinstance(a, _np.ndarray) and a.dtype != object:
        return _np.nanmax(a, axis=axis, **kw)
    a = _col_values(a)
    return _reduce_axis(a, axis, _nanmax2)


def _col_values(a):
    if hasattr(a, '_symx_column_data'):
        return a._symx_column_data()
    return a


# ----------------------------------------------------------------------------
# data-dependent routines (forking)


def _scalar_lt(a, b):
    return e_lt(a, b)


def searchsorted(a, v, side='left', sorter=None):
    """Fork over the insertion position; `a` is assumed sorted (numpy's contract)."""
    if sorter is not None:
        raise Inconclusive("searchsorted(sorter=) not modelled")
    ua, uv = _unit_of(a), _unit_of(v)
    if ua is not None or uv is not None:
        from . import symunits
        a, v = symunits.common_values(a, v)
    if not _has_sym(a) and not _has_sym(v) and not (isinstance(v, _np.ndarray) and v.dtype == object) \
            and not (isinstance(a, _np.ndarray) and a.dtype == object):
        return _np.searchsorted(a, v, side=side)
    arr = _obj(a)
    n = len(arr)

    def one(x):
        # smallest i such that x <= a[i] (left) / x < a[i] (right); NaN goes last
        if isinstance(x, SymReal) and x.k is not None:
            if bool(mk_bool(x.is_nan())):
                return n
        for i in range(n):
            c = e_le(x, arr[i]) if side == 'left' else e_lt(x, arr[i])
            if bool(c):
                return i
        return n

    if isinstance(v, _np.ndarray) and v.ndim > 0:
        vv = _obj(v)
        out = _np.zeros(vv.shape, dtype=int)
        for pos in _np.ndindex(*vv.shape):
            out[pos] = one(vv[pos])
        return out
    if isinstance(v, _np.ndarray):
        v = v[()]
    return one(v)


def argsort(a, axis=-1, kind=None, **kw):
    if isinstance(a, _np.ndarray) and a.dtype != object or not isinstance(a, _np.ndarray) and not _has_sym(_obj(a)):
        return _np.argsort(a, axis=axis, kind=kind)
    arr = _obj(a)
    if not _has_sym(arr):
        try:
            return _np.argsort(arr.astype(float), axis=axis, kind=kind)
        except (TypeError, ValueError):
            return _np.argsort(arr, axis=axis, kind=kind)
    if arr.ndim != 1:
        raise Inconclusive("argsort of a symbolic n-d array")
    return _argsort1(arr)


def _argsort1(arr):
    """Fork over sorting permutations (selection of successive minima).

    NaN sorts last.  Ties: numpy's default sort is insertion sort (stable) for
    the sizes explored here; option ties='any' explores both orders.
    """
    c = C.ctx()
    ties_any = c.ex.opts.get('ties', 'stable') == 'any'
    n = len(arr)
    remaining = list(range(n))
    order = []
    while len(remaining) > 1:
        picked = None
        if ties_any:
            j = c.choose(len(remaining))
            i = remaining[j]
            conds = [_le_nanlast(arr[i], arr[o]) for o in remaining if o != i]
            c.require(mk_bool(z3.And([C.bterm(x) for x in conds])) if conds else True)
            picked = i
        else:
            for i in remaining[:-1]:
                # i is the first minimal element: strictly smaller than earlier ones, <= later ones
                conds = []
                for o in remaining:
                    if o == i:
                        continue
                    conds.append(_lt_nanlast(arr[i], arr[o]) if o < i else _le_nanlast(arr[i], arr[o]))
                cond = mk_bool(z3.And([C.bterm(x) for x in conds]))
                if bool(cond):
                    picked = i
                    break
            if picked is None:
                picked = remaining[-1]
                # constrain (implied on this path, but make the pc explicit for the queries)
        order.append(picked)
        remaining.remove(picked)
    order.extend(remaining)
    return _np.array(order, dtype=int)


def _isnan_b(x):
    r = C.s_isnan(x)
    return r


def _le_nanlast(x, y):
    """x sorts before-or-equal y in numpy's order (NaN last)."""
    nx, ny = _isnan_b(x), _isnan_b(y)
    return e_or(ny, e_and(e_not(nx), e_le(x, y)))


def _lt_nanlast(x, y):
    nx, ny = _isnan_b(x), _isnan_b(y)
    return e_and(e_not(nx), e_or(ny, e_lt(x, y)))


def argmin(a, axis=None, **kw):
    if isinstance(a, _np.ndarray) and a.dtype != object:
        return _np.argmin(a, axis=axis, **kw)
    arr = _obj(a)
    if not _has_sym(arr):
        return _np.argmin(arr.astype(float), axis=axis)
    if axis is None:
        return _argmin1(arr.reshape(-1))
    if axis < 0:
        axis += arr.ndim
    moved = _np.moveaxis(arr, axis, -1)
    out = _np.zeros(moved.shape[:-1], dtype=int)
    for pos in _np.ndindex(*moved.shape[:-1]):
        out[pos] = _argmin1(moved[pos])
    return out


def _argmin1(v):
    """First index of the minimum; the first NaN wins if there is one (numpy semantics)."""
    n = len(v)
    for i in range(n - 1):
        conds = []
        ni = _isnan_b(v[i])
        for o in range(n):
            if o == i:
                continue
            no = _isnan_b(v[o])
            if o < i:
                conds.append(e_and(e_not(no), e_or(ni, e_lt(v[i], v[o]))))
            else:
                conds.append(e_or(ni, e_and(e_not(no), e_le(v[i], v[o]))))
        cond = conds[0]
        for x in conds[1:]:
            cond = e_and(cond, x)
        if bool(cond):
            return i
    return n - 1


def argmax(a, axis=None, **kw):
    if isinstance(a, _np.ndarray) and a.dtype != object:
        return _np.argmax(a, axis=axis, **kw)
    return argmin(apply_ufunc(_np.negative, a), axis=axis)


def interp(x, xp, fp, left=None, right=None, period=None):
    """Contract model of numpy.interp (xp increasing)."""
    if period is not None:
        raise Inconclusive("interp(period=) not modelled")
    from . import symunits
    ux = _unit_of(x)
    uxp = _unit_of(xp)
    ufp = _unit_of(fp)
    if ux is not None or uxp is not None:
        x, xp = symunits.common_values(x, xp)
    fpv = symunits.value_of(fp)
    if not _has_sym(x) and not _has_sym(xp) and not _has_sym(fpv) and not is_sym(left) and not is_sym(right) \
            and not builtins.any(isinstance(q, _np.ndarray) and q.dtype == object for q in (x, xp, fpv)):
        return _requant(_np.interp(x, xp, fpv, left=left, right=right), ufp)
    xs = _obj(xp)
    fs = _obj(fpv)
    n = len(xs)
    if left is None:
        left = fs[0]
    if right is None:
        right = fs[-1]

    def one(q):
        if bool(e_lt(q, xs[0])):
            return left
        if bool(e_gt(q, xs[-1])):
            return right
        for i in range(n - 1):
            # numpy: binary search for i with xp[i] <= q < xp[i+1]; q == xp[-1] -> fp[-1]
            if bool(e_lt(q, xs[i + 1])):
                slope = e_div(e_sub(fs[i + 1], fs[i]), e_sub(xs[i + 1], xs[i]))
                return e_add(e_mul(slope, e_sub(q, xs[i])), fs[i])
        return fs[-1]

    if isinstance(x, _np.ndarray) and x.ndim > 0:
        xo = _obj(x)
        out = _np.empty(xo.shape, dtype=object)
        for pos in _np.ndindex(*xo.shape):
            out[pos] = one(xo[pos])
        return _requant(finish(out), ufp)
    if isinstance(x, _np.ndarray):
        x = x[()]
    return _requant(one(x), ufp)


# ----------------------------------------------------------------------------
# constructors and helpers


def _dt(dtype):
    """Map the shim's float64/int32 callables back to numpy dtypes."""
    if dtype is float64:
        return _np.float64
    if dtype is int32:
        return _np.int32
    return dtype


def _is_float_dt(dtype):
    dtype = _dt(dtype)
    if dtype is None or dtype is float:
        return True
    try:
        return _np.dtype(dtype).kind == 'f'
    except TypeError:
        return False


def zeros(shape, dtype=float, **kw):
    dtype = _dt(dtype)
    if _is_float_dt(dtype) and C.has_ctx():
        r = _np.empty(shape, dtype=object)
        r.fill(0.0)
        return r.view(SymArray)
    return _np.zeros(shape, dtype=dtype, **kw)


def ones(shape, dtype=float, **kw):
    dtype = _dt(dtype)
    if _is_float_dt(dtype) and C.has_ctx():
        r = _np.empty(shape, dtype=object)
        r.fill(1.0)
        return r.view(SymArray)
    return _np.ones(shape, dtype=dtype, **kw)


def zeros_like(a, dtype=None, **kw):
    dtype = _dt(dtype)
    if isinstance(a, _np.ndarray) and (a.dtype == object or a.dtype.kind == 'f') and dtype is None:
        return zeros(a.shape)
    return _np.zeros_like(a, dtype=dtype, **kw)


def _tokens(obj):
    return isinstance(obj, (list, tuple)) and len(obj) > 0 and builtins.all(hasattr(x, '_symx_token_float') for x in obj)


def array(obj, dtype=None, copy=True, **kw):
    dtype = _dt(dtype)
    if _tokens(obj) and dtype in (int, float, _np.float64):
        out = _np.empty(len(obj), dtype=object)
        for i, t in enumerate(obj):
            out[i] = t._symx_token_int() if dtype is int else t._symx_token_float()
        return finish(out)
    if isinstance(obj, _np.ndarray) and obj.dtype == object and (dtype is object or _is_float_dt(dtype)):
        r = _plain(obj).copy() if copy else _plain(obj)
        u = _unit_of(obj)
        return _requant(r.view(SymArray), u)
    if isinstance(obj, (list, tuple)) and _deep_has_sym(obj):
        if not (dtype in (object, int) or _is_float_dt(dtype)):
            raise Inconclusive("np.array(symbolic, dtype=%r)" % (dtype,))
        return finish(_np.array(_deep_plain(obj), dtype=object))
    if is_sym(obj):
        return obj
    return _np.array(obj, dtype=dtype, copy=copy, **kw)


def _deep_has_sym(o):
    if isinstance(o, (list, tuple)):
        return builtins.any(_deep_has_sym(x) for x in o)
    if isinstance(o, _np.ndarray):
        return o.dtype == object
    return is_sym(o)


def _deep_plain(o):
    if isinstance(o, (list, tuple)):
        return [_deep_plain(x) for x in o]
    if isinstance(o, _np.ndarray):
        return _plain(o).tolist()
    return o


def asarray(obj, dtype=None, **kw):
    if isinstance(obj, _np.ndarray) and obj.dtype == object:
        return obj
    return array(obj, dtype=dtype, copy=False)


def astype(a, dtype):
    dtype = _dt(dtype)
    if dtype in (object,):
        return a
    if _is_float_dt(dtype):
        return a
    if dtype in (int, _np.int32, _np.int64) or dtype is bool:
        if not _has_sym(a):
            return _plain(a).astype(dtype)
        if dtype is not bool and builtins.all(isinstance(x, (SymInt, int, _np.integer)) for x in _plain(a).flat):
            return a
        raise Inconclusive("astype(%r) of a symbolic array" % (dtype,))
    if isinstance(dtype, _np.dtype) and dtype == object:
        return a
    raise Inconclusive("astype(%r) of a symbolic array" % (dtype,))


def float64(x=0.0):
    if is_sym(x):
        return real(x)
    if isinstance(x, _np.ndarray) and x.dtype == object:
        return x
    if hasattr(x, '_symx_token_float'):
        return x._symx_token_float()
    return _np.float64(x)


float64.__name__ = 'float64'


def int32(x=0):
    if isinstance(x, SymInt):
        return x
    if isinstance(x, SymReal):
        # truncation toward zero
        t = x.t
        return C.mk_int(z3.If(t >= 0, z3.ToInt(t), -z3.ToInt(-t)))
    return _np.int32(x)


def isscalar(x):
    if is_sym(x):
        return True
    return _np.isscalar(x)


def isreal(x):
    if is_sym(x):
        return True
    if isinstance(x, _np.ndarray) and x.dtype == object:
        return _np.ones(x.shape, dtype=bool)
    return _np.isreal(x)


def _unary(uf):
    def f(x, *a, **k):
        if isinstance(x, _np.ndarray) and x.dtype == object:
            return x.__array_ufunc__(uf, '__call__', x) if isinstance(x, SymArray) else apply_ufunc(uf, x)
        if is_sym(x):
            return _KERNELS[uf](x)
        return uf(x, *a, **k)
    f.__name__ = uf.__name__
    return f


def _binary(uf):
    def f(x, y, *a, **k):
        xs = is_sym(x) or (isinstance(x, _np.ndarray) and x.dtype == object)
        ys = is_sym(y) or (isinstance(y, _np.ndarray) and y.dtype == object)
        if xs or ys:
            for o in (x, y):
                if isinstance(o, SymArray) and type(o) is not SymArray:
                    return o.__array_ufunc__(uf, '__call__', x, y)
            return apply_ufunc(uf, x, y)
        return uf(x, y, *a, **k)
    f.__name__ = uf.__name__
    return f


sqrt = _unary(_np.sqrt)
log10 = _unary(_np.log10)
log = _unary(_np.log)
np_abs = absolute = _unary(_np.absolute)
isnan = _unary(_np.isnan)
isinf = _unary(_np.isinf)
isfinite = _unary(_np.isfinite)
floor = _unary(_np.floor)
ceil = _unary(_np.ceil)
sign = _unary(_np.sign)
logical_not = _unary(_np.logical_not)
negative = _unary(_np.negative)
square = _unary(_np.square)
minimum = _binary(_np.minimum)


def clip(a, a_min=None, a_max=None, out=None, **kw):
    if out is not None or kw:
        raise Inconclusive("numpy.clip with out= / keywords is not modelled")
    r = a
    if a_min is not None:
        r = maximum(r, a_min)
    if a_max is not None:
        r = minimum(r, a_max)
    return r
maximum = _binary(_np.maximum)
power = _binary(_np.power)
add = _binary(_np.add)
subtract = _binary(_np.subtract)
multiply = _binary(_np.multiply)
divide = true_divide = _binary(_np.true_divide)
logical_and = _binary(_np.logical_and)
logical_or = _binary(_np.logical_or)
less = _binary(_np.less)
greater = _binary(_np.greater)
equal = _binary(_np.equal)


def where(cond, *args):
    if not args:
        if isinstance(cond, _np.ndarray) and cond.dtype == object:
            cond = concretize_mask(_plain(cond))
        return _np.where(cond)
    x, y = args
    if not _deep_has_sym([cond, x, y]):
        return _np.where(cond, x, y)
    cb, xb, yb = _np.broadcast_arrays(_obj(cond), _obj(x), _obj(y))
    out = _np.empty(cb.shape, dtype=object)
    for pos in _np.ndindex(*cb.shape):
        out[pos] = ite(cb[pos], xb[pos], yb[pos])
    return finish(out)


def hstack(tup):
    tup = list(tup)
    if not _deep_has_sym(tup):
        return _np.hstack(tup)
    parts = [_np.atleast_1d(_obj(t)) for t in tup]
    return _np.concatenate(parts).view(SymArray)


def concatenate(tup, axis=0):
    tup = list(tup)
    if not _deep_has_sym(tup):
        return _np.concatenate(tup, axis=axis)
    return _np.concatenate([_obj(t) for t in tup], axis=axis).view(SymArray)


def vstack(tup):
    tup = list(tup)
    if not _deep_has_sym(tup):
        return _np.vstack(tup)
    return _np.vstack([_obj(t) for t in tup]).view(SymArray)


def column_stack(tup):
    tup = list(tup)
    if not _deep_has_sym(tup):
        return _np.column_stack(tup)
    return _np.column_stack([_obj(t) for t in tup]).view(SymArray)


def repeat(a, repeats, axis=None):
    if isinstance(a, _np.ndarray) and a.dtype == object:
        u = _unit_of(a)
        return _requant(_np.repeat(_plain(a), repeats, axis=axis).view(SymArray), u)
    if is_sym(a):
        r = _np.empty(repeats if _np.isscalar(repeats) else tuple(repeats), dtype=object)
        r.fill(a)
        return r.view(SymArray)
    return _np.repeat(a, repeats, axis=axis)


def logspace(start, stop, num=50, **kw):
    if is_sym(start) or is_sym(stop) or is_sym(num):
        num = int(num)
        # contract: 10 ** linspace(start, stop, num)
        ex = linspace(start, stop, num)
        return apply_ufunc(_np.power, 10.0, ex)
    return _np.logspace(start, stop, num, **kw)


def linspace(start, stop, num=50, endpoint=True, **kw):
    if is_sym(start) or is_sym(stop) or is_sym(num):
        num = int(num)
        if not endpoint:
            raise Inconclusive("linspace(endpoint=False)")
        out = _np.empty(num, dtype=object)
        if num == 1:
            out[0] = start
        else:
            step = e_div(e_sub(stop, start), num - 1)
            for i in range(num):
                out[i] = e_add(start, e_mul(step, i)) if i < num - 1 else stop
        return out.view(SymArray)
    return _np.linspace(start, stop, num, endpoint=endpoint, **kw)


def in1d(a, b, **kw):
    if hasattr(_np, 'in1d'):
        return _np.in1d(_col_plain(a), _col_plain(b), **kw)
    raise AttributeError("module 'numpy' has no attribute 'in1d'")


def isin(a, b, **kw):
    return _np.isin(_col_plain(a), _col_plain(b), **kw)


def _col_plain(a):
    return a


def diagonal(a, *args, **kw):
    if isinstance(a, _np.ndarray) and a.dtype == object:
        return _np.diagonal(_plain(a), *args, **kw).view(SymArray)
    return _np.diagonal(a, *args, **kw)


def unique(a, *args, **kw):
    if isinstance(a, _np.ndarray) and a.dtype == object and _has_sym(a):
        raise Inconclusive("np.unique of symbolic values")
    return _np.unique(a, *args, **kw)


def arange(*a, **k):
    a = [x.__index__() if isinstance(x, SymInt) else x for x in a]
    return _np.arange(*a, **k)


def seterr(**kw):
    return {}


def shape(a):
    return _np.shape(a)


def atleast_1d(a):
    if is_sym(a):
        return SymArray([a])
    return _np.atleast_1d(a)


def nonzero(a):
    if isinstance(a, _np.ndarray) and a.dtype == object:
        a = concretize_mask(_plain(a))
    return _np.nonzero(a)


class _Testing:
    @staticmethod
    def assert_array_almost_equal_nulp(x, y, nulp=1):
        xs, ys = _obj(x), _obj(y)
        if xs.shape != ys.shape:
            raise AssertionError("shape mismatch")
        if not _has_sym(xs) and not _has_sym(ys):
            return _np.testing.assert_array_almost_equal_nulp(xs.astype(float), ys.astype(float), nulp)
        # real-number model: "equal within a few ulp" == equal
        for pos in _np.ndindex(*xs.shape):
            if not bool(e_eq(xs[pos], ys[pos])):
                raise AssertionError("arrays differ")

    def __getattr__(self, name):
        return getattr(_np.testing, name)


testing = _Testing()


class _Char:
    @staticmethod
    def strip(a, chars=None):
        return _np.char.strip(_col_plain(a), chars)

    def __getattr__(self, name):
        return getattr(_np.char, name)


char = _Char()


class _Module(types.ModuleType):
    """The object handed to the code under test as `numpy`."""

    def __getattr__(self, name):
        return getattr(_np, name)


def make_module(overrides=None):
    m = _Module('numpy')
    g = globals()
    for name in ['zeros', 'ones', 'zeros_like', 'array', 'asarray', 'float64', 'int32', 'isscalar', 'isreal',
                 'sqrt', 'log10', 'log', 'absolute', 'isnan', 'isinf', 'isfinite', 'floor', 'ceil', 'sign',
                 'logical_not', 'negative', 'square', 'minimum', 'maximum', 'clip', 'power', 'add', 'subtract', 'multiply',
                 'divide', 'true_divide', 'logical_and', 'logical_or', 'less', 'greater', 'equal',
                 'where', 'hstack', 'concatenate', 'vstack', 'column_stack', 'repeat', 'logspace', 'linspace',
                 'isin', 'diagonal', 'unique', 'arange', 'seterr', 'atleast_1d', 'nonzero',
                 'nanmin', 'nanmax', 'searchsorted', 'argsort', 'argmin', 'argmax', 'interp',
                 'testing', 'char']:
        setattr(m, name, g[name])
    m.max = m.amax = amax
    m.sum = np_sum
    m.any = np_any
    m.all = np_all
    m.abs = np_abs
    m.min = m.amin = amin
    if hasattr(_np, 'in1d'):
        m.in1d = in1d
    for k, v in (overrides or {}).items():
        setattr(m, k, v)
    return m


def sym_array(name, shape, kinded=False):
    """A SymArray of fresh real variables name[i,j..]."""
    if isinstance(shape, int):
        shape = (shape,)
    out = _np.empty(shape, dtype=object)
    for pos in _np.ndindex(*shape):
        out[pos] = C.fresh_real("%s[%s]" % (name, ','.join(map(str, pos))), kinded)
    return out.view(SymArray)
