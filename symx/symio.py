"""symx.symio -- environment stubs: in-memory file system, astropy.table.Table, astropy.io.fits, pickle.

Each stub is part of the claim of the harnesses that use it (listed in their evidence):
  * FITS container: HDUs keep headers, column arrays, column unit *strings* and image arrays unchanged;
    unit strings still go through the real to_string(format='fits') and the real parse_unit_safe.
    dtype narrowing on disk (float32 columns) and the byte-level format are outside the claim.
  * Table: ordered named columns of equal length; row selection by mask / index array; sort by a column;
    quantities assigned to a column keep their unit.
  * pickle: dump runs the object's real __getstate__ (recursively snapshotting arrays), load rebuilds with
    __new__ + the real __setstate__; EOFError at end of data; a truncated record raises EOFError or
    UnpicklingError (nondeterministically) -- the documented behaviour of _pickle.
"""
from __future__ import annotations

import copy
import fnmatch
import io
import os as _os
import pickle as _pickle
import types

import numpy as np

from . import core as C
from . import symnp
from . import symunits as su
from .symnp import SymArray, _plain, _obj


# ----------------------------------------------------------------------------
# file system

class FS:
    def __init__(self):
        self.files = {}      # path -> object (HDUList snapshot | TextFile | PickleStream | anything)
        self.dirs = set()
        self.log = []

    def norm(self, p):
        return _os.path.normpath(str(p))

    def exists(self, p):
        p = self.norm(p)
        return p in self.files or p in self.dirs or any(f.startswith(p + '/') for f in self.files)

    def glob(self, pattern):
        pattern = self.norm(pattern)
        out = [f for f in self.files if fnmatch.fnmatchcase(f, pattern) and f.count('/') == pattern.count('/')]
        order = getattr(self, 'listing_order', None)
        return order(out) if order else out

    def mkdir(self, p):
        self.dirs.add(self.norm(p))

    def remove(self, p):
        self.files.pop(self.norm(p), None)


class TextFile(io.StringIO):
    def __init__(self, fs, path, initial=''):
        super().__init__(initial)
        self._fs, self._path = fs, path

    def close(self):
        if not self.closed:
            self._fs.files[self._path] = self.getvalue()
        super().close()


def make_os(fs):
    m = types.ModuleType('os')
    m.__dict__.update({k: getattr(_os, k) for k in ('sep', 'linesep', 'environ')})
    path = types.ModuleType('os.path')
    for k in ('join', 'basename', 'dirname', 'splitext', 'normpath', 'abspath', 'expanduser'):
        setattr(path, k, getattr(_os.path, k))
    path.exists = fs.exists
    m.path = path
    m.mkdir = fs.mkdir
    m.remove = fs.remove
    m.system = lambda cmd: fs.log.append(('system', cmd)) or 0
    return m


def make_glob(fs):
    m = types.ModuleType('glob')
    m.glob = fs.glob
    return m


def make_open(fs):
    def sym_open(path, mode='r', *a, **k):
        p = fs.norm(path)
        if 'b' in mode:
            if 'w' in mode:
                st = PickleStream(fs, p)
                fs.files[p] = st
                return st.writer()
            if p not in fs.files:
                raise FileNotFoundError(p)
            return fs.files[p].reader()
        if 'w' in mode:
            return TextFile(fs, p)
        if p not in fs.files:
            raise FileNotFoundError(p)
        return io.StringIO(fs.files[p])
    return sym_open


# ----------------------------------------------------------------------------
# Table

class Column(SymArray):
    """A table column: an ndarray (object dtype when symbolic) with .unit / .data / .name."""

    def __new__(cls, data, unit=None, name=None):
        if isinstance(data, su.SymQuantity):
            unit = data._unit if unit is None else unit
            data = data.value
        arr = np.asarray(data) if not isinstance(data, np.ndarray) else data
        obj = _plain(arr).view(cls)
        obj._cunit = su.unwrap(unit) if unit is not None else None
        obj.name = name
        return obj

    def __array_finalize__(self, obj):
        self._cunit = getattr(obj, '_cunit', None)
        self.name = getattr(obj, 'name', None)

    @property
    def unit(self):
        return None if self._cunit is None else su.SUnit(self._cunit)

    @unit.setter
    def unit(self, v):
        self._cunit = None if v is None else su.unwrap(v)

    @property
    def data(self):
        r = _plain(self)
        return r.view(SymArray) if r.dtype == object else r

    def _symx_column_data(self):
        return self.data

    def __array_ufunc__(self, ufunc, method, *inputs, **kw):
        ins = [i.data if isinstance(i, Column) else i for i in inputs]
        if any(isinstance(i, np.ndarray) and i.dtype == object or C.is_sym(i) for i in ins):
            return symnp.apply_ufunc(ufunc, *ins) if method == '__call__' else SymArray.__array_ufunc__(ins[0], ufunc, method, *ins, **kw)
        return getattr(ufunc, method)(*ins, **kw)

    def __eq__(self, o):
        a = self.data
        o = o.data if isinstance(o, Column) else o
        return a == o

    def __ne__(self, o):
        a = self.data
        o = o.data if isinstance(o, Column) else o
        return a != o

    __hash__ = None

    def __getitem__(self, idx):
        r = np.ndarray.__getitem__(_plain(self), symnp.concretize_index(idx))
        if isinstance(r, np.ndarray):
            c = r.view(Column)
            c._cunit, c.name = self._cunit, self.name
            return c
        return r

    def __setitem__(self, idx, value):
        if isinstance(value, su.SymQuantity):
            value = value.to(self._cunit).value if self._cunit is not None else value.value
        if C.is_sym(value) and _plain(self).dtype != object:
            raise C.Inconclusive("symbolic value stored into a concrete table column")
        np.ndarray.__setitem__(_plain(self), symnp.concretize_index(idx), value)

    def astype(self, dtype, **kw):
        return _plain(self).astype(dtype, **kw)

    def __repr__(self):
        return "Column(%s, %s, unit=%s)" % (self.name, _plain(self).tolist(), self._cunit)


class _Columns:
    def __init__(self, table):
        self._t = table

    def keys(self):
        return list(self._t._names)

    def __iter__(self):
        return iter(list(self._t._names))

    def __contains__(self, k):
        return k in self._t._names

    def __len__(self):
        return len(self._t._names)

    def __getitem__(self, k):
        if isinstance(k, (int, np.integer)):
            return self._t._cols[self._t._names[k]]
        return self._t._cols[k]

    def values(self):
        return [self._t._cols[n] for n in self._t._names]


class Row:
    def __init__(self, table, i):
        self._t, self._i = table, i

    def __getitem__(self, k):
        return self._t._cols[k][self._i]


class Table:
    FS = None

    def __init__(self, data=None, names=None, **kw):
        self._names = []
        self._cols = {}
        self.meta = {}
        if isinstance(data, Table):
            for n in data._names:
                self[n] = data._cols[n].copy()
                self._cols[n]._cunit = data._cols[n]._cunit
        elif isinstance(data, dict):
            for n, v in data.items():
                self[n] = v
        elif data is not None:
            raise C.Inconclusive("Table(%r)" % type(data))

    # columns
    def __setitem__(self, name, value):
        if not isinstance(name, str):
            raise C.Inconclusive("Table row assignment")
        if isinstance(value, Column):
            col = Column(_plain(value).copy(), value._cunit, name)
        elif isinstance(value, su.SymQuantity):
            col = Column(_plain(value).copy(), value._unit, name)
        elif isinstance(value, np.ndarray):
            col = Column(_plain(value).copy(), None, name)
        elif isinstance(value, (list, tuple)):
            col = Column(symnp.array(list(value)) if symnp._deep_has_sym(value) else np.array(value), None, name)
        else:
            n = len(self) if self._names else 1
            col = Column(np.array([value] * n), None, name)
        if self._names and len(col) != len(self):
            raise ValueError("Inconsistent data column lengths")
        if name not in self._cols:
            self._names.append(name)
        self._cols[name] = col

    def __getitem__(self, key):
        if isinstance(key, str):
            return self._cols[key]
        if isinstance(key, (int, np.integer)):
            return Row(self, int(key))
        if isinstance(key, (np.ndarray, list, slice)):
            if isinstance(key, np.ndarray) and key.dtype == object:
                key = symnp.concretize_index(key)
            t = Table()
            for n in self._names:
                c = self._cols[n]
                sub = np.ndarray.__getitem__(_plain(c), key)
                t._names.append(n)
                t._cols[n] = Column(sub.copy(), c._cunit, n)
            return t
        raise C.Inconclusive("Table[%r]" % (key,))

    def __len__(self):
        return len(self._cols[self._names[0]]) if self._names else 0

    def __contains__(self, k):
        return k in self._names

    @property
    def columns(self):
        return _Columns(self)

    @property
    def colnames(self):
        return list(self._names)

    @property
    def dtype(self):
        return types.SimpleNamespace(names=tuple(self._names))

    def keys(self):
        return list(self._names)

    def sort(self, keys):
        if isinstance(keys, (list, tuple)):
            if len(keys) != 1:
                raise C.Inconclusive("Table.sort on several keys")
            keys = keys[0]
        order = symnp.argsort(self._cols[keys].data)
        for n in self._names:
            c = self._cols[n]
            self._cols[n] = Column(_plain(c)[order].copy(), c._cunit, n)

    def copy(self):
        return Table(self)

    def __array__(self, dtype=None, copy=None):
        raise C.Inconclusive("np.array(Table) outside the shim")

    def _symx_struct(self):
        """What np.array(table) means for the FITS container: a snapshot of the columns."""
        return Table(self)

    @classmethod
    def read(cls, src, format=None, character_as_bytes=None, **kw):
        if isinstance(src, str):
            hl = open_fits(cls.FS, src)
            hdu = next(h for h in hl if isinstance(h, BinTableHDU))
        else:
            hdu = src
        if not isinstance(hdu, BinTableHDU):
            raise C.Inconclusive("Table.read(%r)" % type(src))
        t = Table()
        for i, n in enumerate(hdu._table._names):
            c = hdu._table._cols[n]
            unit = hdu.columns[i].unit
            t._names.append(n)
            data = _plain(c).copy()
            if data.dtype.kind == 'S' and character_as_bytes is False:
                data = data.astype('U')
            t._cols[n] = Column(data, None if unit in (None, '') else su._u.Unit(unit), n)
        return t


# ----------------------------------------------------------------------------
# FITS container

class Header(dict):
    def __setitem__(self, k, v):
        if isinstance(v, tuple):
            v = v[0]
        dict.__setitem__(self, k.upper(), v)

    def __getitem__(self, k):
        return dict.__getitem__(self, k.upper())

    def __contains__(self, k):
        return dict.__contains__(self, k.upper())

    def get(self, k, d=None):
        return dict.get(self, k.upper(), d)


class PrimaryHDU:
    def __init__(self, data=None, header=None):
        self.data = data
        self.header = Header(header or {})
        self.name = 'PRIMARY'


class ImageHDU:
    def __init__(self, data=None, header=None, name=None):
        self.data = data
        self.header = Header(header or {})
        self._name = name or ''

    @property
    def name(self):
        return self.header.get('EXTNAME', self._name)

    @name.setter
    def name(self, v):
        self._name = v
        self.header['EXTNAME'] = v


class _ColInfo:
    def __init__(self, name, unit=None):
        self.name = name
        self.unit = unit


class _FitsRec:
    """hdu.data of a binary table: field(name) / [name] give the column arrays."""

    def __init__(self, table):
        self._t = table

    def field(self, name):
        if isinstance(name, (int, np.integer)):
            name = self._t._names[name]
        return self._t._cols[name].data

    def __getitem__(self, name):
        if isinstance(name, str):
            return self._t._cols[name].data
        raise C.Inconclusive("FITS_rec[%r]" % (name,))

    def __len__(self):
        return len(self._t)

    @property
    def names(self):
        return list(self._t._names)


class BinTableHDU:
    def __init__(self, data=None, header=None, name=None):
        if isinstance(data, Table):
            self._table = Table(data)
        else:
            raise C.Inconclusive("BinTableHDU(%r)" % type(data))
        self.header = Header(header or {})
        self.columns = _ColList([_ColInfo(n, None) for n in self._table._names])
        if name:
            self.header['EXTNAME'] = name

    @property
    def data(self):
        return _FitsRec(self._table)

    @property
    def name(self):
        return self.header.get('EXTNAME', '')

    @name.setter
    def name(self, v):
        self.header['EXTNAME'] = v


class _ColList(list):
    @property
    def names(self):
        return [c.name for c in self]


class HDUList(list):
    def __init__(self, hdus=None):
        super().__init__(hdus or [])

    def __getitem__(self, key):
        if isinstance(key, str):
            for h in self:
                if str(h.name).upper() == key.upper():
                    return h
            raise KeyError("Extension %r not found." % key)
        return list.__getitem__(self, key)

    def writeto(self, filename, overwrite=False, **kw):
        fs = Table.FS
        p = fs.norm(filename)
        if p in fs.files and not overwrite:
            raise OSError("File %s already exists." % filename)
        fs.files[p] = snapshot_hdulist(self)

    def close(self):
        pass


def _snap(x):
    if isinstance(x, su.SymQuantity):
        raise C.Inconclusive("a Quantity handed to the FITS container")
    if isinstance(x, np.ndarray):
        return _plain(x).copy().view(SymArray) if x.dtype == object else np.array(x, copy=True)
    return copy.deepcopy(x)


def snapshot_hdulist(hl):
    out = HDUList()
    for h in hl:
        if isinstance(h, PrimaryHDU):
            n = PrimaryHDU(_snap(h.data), dict(h.header))
        elif isinstance(h, ImageHDU):
            n = ImageHDU(_snap(h.data), dict(h.header), h._name)
        else:
            n = BinTableHDU(h._table, dict(h.header))
            for a, b in zip(n.columns, h.columns):
                a.unit = b.unit
        out.append(n)
    return out


def open_fits(fs, filename, memmap=None, **kw):
    p = fs.norm(filename)
    if p not in fs.files:
        raise FileNotFoundError("[Errno 2] No such file or directory: %r" % filename)
    f = fs.files[p]
    if not isinstance(f, HDUList):
        raise OSError("not a FITS file: %s" % filename)
    return snapshot_hdulist(f)


def make_fits(fs):
    m = types.ModuleType('astropy.io.fits')
    m.PrimaryHDU, m.ImageHDU, m.BinTableHDU, m.HDUList = PrimaryHDU, ImageHDU, BinTableHDU, HDUList
    m.open = lambda filename, memmap=None, **kw: open_fits(fs, filename, memmap, **kw)
    return m


def make_table_module(fs):
    Table.FS = fs
    m = types.ModuleType('astropy.table')
    m.Table = Table
    m.Column = Column
    return m


# np.array(Table) must hand the table to the container: extend the numpy shim
def np_array_hook(orig_array):
    def array(obj, *a, **k):
        if isinstance(obj, Table):
            return obj._symx_struct()
        return orig_array(obj, *a, **k)
    return array


# ----------------------------------------------------------------------------
# pickle

class PickleStream:
    """An append-only stream of records.  Each record has a (possibly symbolic) length; a symbolic
    truncation offset can be attached (C19)."""

    def __init__(self, fs, path):
        self.fs, self.path = fs, path
        self.records = []          # (state snapshot, length)
        self.truncate_at = None    # None | SymInt/int: number of bytes that survive
        self.closed = False

    def writer(self):
        return _PickleHandle(self, 'w')

    def reader(self):
        return _PickleHandle(self, 'r')


class _PickleHandle:
    def __init__(self, stream, mode):
        self.stream, self.mode, self.pos = stream, mode, 0

    def close(self):
        pass


def _state_of(obj, memo=None):
    """Snapshot by value, through the real __getstate__ of user classes."""
    if isinstance(obj, np.ndarray):
        if isinstance(obj, su.SymQuantity):
            return ('quantity', _plain(obj).copy(), obj._unit)
        if isinstance(obj, Column):
            raise C.Inconclusive("pickling a table column")
        return ('array', _plain(obj).copy(), type(obj) is not np.ndarray and obj.dtype == object)
    if isinstance(obj, dict):
        return ('dict', [(_state_of(k), _state_of(v)) for k, v in obj.items()])
    if isinstance(obj, list):
        return ('list', [_state_of(v) for v in obj])
    if isinstance(obj, tuple):
        return ('tuple', [_state_of(v) for v in obj])
    if obj is None or isinstance(obj, (str, bytes, int, float, bool, np.generic)) or C.is_sym(obj):
        return ('atom', obj)
    if hasattr(obj, '__getstate__') and type(obj).__module__.split('.')[0] == 'sedfitter':
        st = obj.__getstate__()
        return ('object', type(obj), _state_of(st))
    if type(obj).__module__.split('.')[0] == 'sedfitter':
        return ('object', type(obj), _state_of(dict(obj.__dict__)))
    return ('opaque', obj)


def _rebuild(st):
    tag = st[0]
    if tag == 'quantity':
        return su.SymQuantity(st[1].copy(), st[2])
    if tag == 'array':
        a = st[1].copy()
        return a.view(SymArray) if a.dtype == object else a
    if tag == 'dict':
        return {_rebuild(k): _rebuild(v) for k, v in st[1]}
    if tag == 'list':
        return [_rebuild(v) for v in st[1]]
    if tag == 'tuple':
        return tuple(_rebuild(v) for v in st[1])
    if tag == 'atom':
        return st[1]
    if tag == 'object':
        cls = st[1]
        obj = cls.__new__(cls)
        state = _rebuild(st[2])
        if hasattr(obj, '__setstate__') and '__setstate__' in cls.__dict__ or any('__setstate__' in b.__dict__ for b in cls.__mro__[:-1]):
            obj.__setstate__(state)
        else:
            obj.__dict__.update(state)
        return obj
    return st[1]


class UnpicklingError(_pickle.UnpicklingError):
    pass


def make_pickle(fs, record_len=None):
    """record_len: callable(index) -> int | SymInt giving the byte length of record i (default 1)."""
    m = types.ModuleType('pickle')
    m.UnpicklingError = _pickle.UnpicklingError
    m.PickleError = _pickle.PickleError
    m.HIGHEST_PROTOCOL = _pickle.HIGHEST_PROTOCOL

    def dump(obj, handle, protocol=None):
        if handle.mode != 'w':
            raise io.UnsupportedOperation("not writable")
        st = handle.stream
        n = record_len(len(st.records)) if record_len else 1
        st.records.append((_state_of(obj), n))

    def load(handle):
        if handle.mode != 'r':
            raise io.UnsupportedOperation("not readable")
        st = handle.stream
        i = handle.pos
        if i >= len(st.records):
            raise EOFError("Ran out of input")
        if st.truncate_at is not None:
            start = 0
            for (_s, n) in st.records[:i]:
                start = start + n
            end = start + st.records[i][1]
            cut = st.truncate_at
            if bool(cut <= start):
                handle.pos = len(st.records)
                raise EOFError("Ran out of input")
            if bool(cut < end):
                # record cut short: _pickle raises EOFError or UnpicklingError depending on where; the bytes that
                # were there have been consumed, so every later load finds end of data
                handle.pos = len(st.records)
                if C.ctx().choose(2) == 0:
                    raise EOFError("Ran out of input")
                raise _pickle.UnpicklingError("pickle data was truncated")
        handle.pos += 1
        return _rebuild(st.records[i][0])
    m.dump, m.load = dump, load
    return m


# ----------------------------------------------------------------------------
# one-stop environment

class ProgressBar:
    def __init__(self, total_or_items, *a, **k):
        self._items = None if isinstance(total_or_items, (int, np.integer)) else total_or_items

    def update(self, *a, **k):
        pass

    def __iter__(self):
        return iter(self._items)

    def __enter__(self):
        return self

    def __exit__(self, *a):
        return False


class _Log:
    def __getattr__(self, name):
        return lambda *a, **k: None


def make_env(fs=None, record_len=None):
    """Loader keyword arguments for harnesses that model files."""
    from . import loader as _loader
    fs = fs or FS()
    console = types.ModuleType('astropy.utils.console')
    console.ProgressBar = ProgressBar
    logger = types.ModuleType('astropy.logger')
    logger.log = _Log()
    shims = {
        'astropy.table': make_table_module(fs),
        'astropy.io.fits': make_fits(fs),
        'astropy.utils.console': console,
        'astropy.logger': logger,
        'astropy.log': _Log(),
        'pickle': make_pickle(fs, record_len),
        'os': make_os(fs),
        'glob': make_glob(fs),
    }
    return fs, dict(shims=shims, builtin_overrides={'open': make_open(fs), 'input': lambda *a: 'y'})


def io_loader(fs=None, record_len=None, **kw):
    from . import loader as _loader
    fs, env = make_env(fs, record_len)
    env.update(kw)
    L = _loader.Loader(**env)
    L.np.array = np_array_hook(L.np.array)
    L.fs = fs
    return L
