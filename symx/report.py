"""symx.report -- collecting verdicts, replaying counterexamples, writing evidence."""
from __future__ import annotations

import hashlib
import json
import math
import os
import time
import traceback

import numpy as np
import z3

from . import core as C

VERIF = os.path.dirname(os.path.dirname(os.path.abspath(__file__)))


def load_known_findings():
    p = os.path.join(VERIF, 'known_findings.json')
    if not os.path.exists(p):
        return []
    with open(p) as fh:
        return json.load(fh).get('findings', [])


def jsonable(x):
    if isinstance(x, dict):
        return {str(k): jsonable(v) for k, v in x.items()}
    if isinstance(x, (list, tuple)):
        return [jsonable(v) for v in x]
    if isinstance(x, np.ndarray):
        return jsonable(x.tolist())
    if isinstance(x, (np.floating, float)):
        f = float(x)
        if math.isnan(f):
            return 'nan'
        if math.isinf(f):
            return 'inf' if f > 0 else '-inf'
        return f
    if isinstance(x, (np.integer,)):
        return int(x)
    if isinstance(x, (np.bool_,)):
        return bool(x)
    if isinstance(x, (str, int, bool)) or x is None:
        return x
    return str(x)


def unjson_num(x):
    if isinstance(x, str):
        return {'nan': float('nan'), 'inf': float('inf'), '-inf': float('-inf')}.get(x, x)
    if isinstance(x, list):
        return [unjson_num(v) for v in x]
    if isinstance(x, dict):
        return {k: unjson_num(v) for k, v in x.items()}
    return x


class Part:
    """Result of one independent configuration (picklable)."""

    def __init__(self, name):
        self.name = name
        self.paths = 0
        self.aborted = 0
        self.queries = {'unsat': 0, 'sat': 0, 'unknown': 0}
        self.obligations = 0
        self.solver_time = 0.0
        self.wall = 0.0
        self.witnesses = 0
        self.vacuous = []
        self.violations = []      # dicts: label, inputs, detail, finding (None | id)
        self.inconclusive = []    # strings
        self.validated = 0
        self.validation_failures = []
        self.samples = []
        self.functions = set()
        self.assumptions = set()
        self.bounds = {}
        self.notes = []


class Claims:
    """Helper bound to one Explorer / one config; harness code calls claim() per path."""

    def __init__(self, part, explorer, prop, known=None):
        self.part = part
        self.ex = explorer
        self.prop = prop
        self.known = {f['id']: f for f in (known if known is not None else load_known_findings())
                      if f.get('property') == prop}
        self._sample_budget = 2

    def finding_active(self, fid):
        f = self.known.get(fid)
        return f is not None and f.get('status') == 'known'

    def claim(self, ctx, goal, label, inputs=None, replay=None, excuses=(), timeout_ms=None, detail=None, prefer=()):
        """Prove `goal` on this path.

        inputs : callable(model) -> jsonable dict of concrete inputs (for replay / reporting)
        replay : callable(inputs dict) -> (violates: bool, info) run against the real code
        excuses: [(finding_id, z3 condition characterising the known class)]
        """
        self.part.obligations += 1
        res, model = ctx.prove(goal, label, timeout_ms=timeout_ms)
        self._absorb_stats()
        if res == 'unsat':
            if self._sample_budget > 0:
                self._sample_budget -= 1
                self.part.samples.append({'obligation': label, 'verdict': 'unsat (holds on this path)',
                                          'path_condition': [str(f)[:200] for f in ctx.pc[:6]],
                                          'goal': str(z3.simplify(C.bterm(goal) if not isinstance(goal, z3.ExprRef) else goal))[:400]})
            return True
        if res == 'unknown':
            self.part.inconclusive.append("%s: solver returned unknown" % label)
            return False
        # sat: candidate counterexample; prefer a model with 'nice' values (exactly representable in floating point)
        if prefer:
            g = goal if isinstance(goal, z3.ExprRef) else C.bterm(goal)
            base = ctx.all_formulas() + [z3.Not(g)]
            hints = [p if isinstance(p, z3.ExprRef) else C.bterm(p) for p in prefer]
            for k in range(len(hints), 0, -1):
                r2, m2, _dt = self.ex.solve(base + hints[:k], 10000, None, fallback=False)
                if r2 == 'sat':
                    model = m2
                    break
        return self._handle_cex(ctx, goal, label, model, inputs, replay, excuses, timeout_ms, detail)

    def _absorb_stats(self):
        pass

    def _handle_cex(self, ctx, goal, label, model, inputs, replay, excuses, timeout_ms, detail):
        inp = inputs(model) if inputs else {}
        reproduced, info = (None, None)
        if replay is not None:
            try:
                reproduced, info = replay(unjson_num(jsonable(inp)))
            except Exception as e:  # noqa: BLE001
                reproduced, info = None, "replay crashed: %s" % traceback.format_exc(limit=3)
        if replay is not None and not reproduced:
            if not hasattr(self.part, 'debug'):
                self.part.debug = []
            self.part.debug.append("%s inputs=%s pc=%s" % (label, json.dumps(jsonable(inp)), [str(f)[:160] for f in ctx.pc][-12:]))
            self.part.inconclusive.append("%s: solver model does not reproduce on the real code (%s)" % (label, str(info)[:300]))
            return False
        # which known class?
        hit = None
        for fid, cond in excuses:
            if self.finding_active(fid):
                v = model.eval(cond if isinstance(cond, z3.ExprRef) else C.bterm(cond), model_completion=True)
                if z3.is_true(v):
                    hit = fid
                    break
        rec = {'label': label, 'inputs': jsonable(inp), 'detail': detail, 'replay_info': jsonable(info), 'finding': hit}
        if hit is None:
            self.part.violations.append(rec)
            return False
        if not any(v.get('finding') == hit for v in self.part.violations):
            self.part.violations.append(rec)
        # look for a different violation of the same obligation
        conds = [c if isinstance(c, z3.ExprRef) else C.bterm(c) for fid, c in excuses if self.finding_active(fid)]
        g = goal if isinstance(goal, z3.ExprRef) else C.bterm(goal)
        weaker = z3.Or([g] + conds)
        self.part.obligations += 1
        res, model2 = ctx.prove(weaker, label + ' (outside known findings)', timeout_ms=timeout_ms)
        if res == 'unsat':
            return True
        if res == 'unknown':
            self.part.inconclusive.append("%s: unknown outside known findings" % label)
            return False
        return self._handle_cex(ctx, weaker, label, model2, inputs, replay, [], timeout_ms, detail)

    def crash(self, ctx, exc, label, inputs=None, replay=None, excuses=()):
        """The real code raised on a path where the property promises a result."""
        return self.claim(ctx, z3.BoolVal(False), label + ': raises %s: %s' % (type(exc).__name__, str(exc)[:120]),
                          inputs=inputs, replay=replay, excuses=excuses)

    def witness(self, ctx):
        """Vacuity guard: this path's full condition must be satisfiable."""
        r, m = ctx.reachable()
        if r in ('sat', 'sat-without-definitions'):
            self.part.witnesses += 1
        return r, m


def finish_part(part, ex, cov=None):
    part.paths += ex.stats.paths
    part.aborted += ex.stats.aborted
    for k in part.queries:
        part.queries[k] += ex.stats.queries[k]
    part.solver_time += ex.stats.solver_time
    xc = getattr(part, 'xcheck', None) or {}
    for k, v in ex.xcheck.items():
        xc[k] = xc.get(k, 0) + v
    part.xcheck = xc
    if ex.xcheck.get('DISAGREE_sat'):
        part.inconclusive.append("cvc5 reports sat on %d quer(ies) that z3 decided unsat" % ex.xcheck['DISAGREE_sat'])
    if cov is not None:
        part.functions |= set(cov.functions())


def write_evidence(prop, tier, seed, parts, wall, level='model_checking', extra=None):
    paths = sum(p.paths for p in parts)
    q = {'unsat': 0, 'sat': 0, 'unknown': 0}
    for p in parts:
        for k in q:
            q[k] += p.queries[k]
    samples = []
    for p in parts:
        for s in p.samples[:1]:
            s = dict(s)
            s['config'] = p.name
            samples.append(s)
    samples = samples[:12] or [{'note': 'no sample recorded'}]
    viol = [v for p in parts for v in p.violations if v.get('finding') is None]
    known = [v for p in parts for v in p.violations if v.get('finding') is not None]
    functions = sorted(set().union(*[p.functions for p in parts])) if parts else []
    assumptions = sorted(set().union(*[p.assumptions for p in parts])) if parts else []
    ev = {
        'property_id': prop,
        'tier': tier,
        'seed': int(seed),
        'level': level,
        'coverage': {
            'states': max(paths, 0),
            'transitions': sum(q.values()),
            'traces_validated_against_impl': sum(p.validated for p in parts),
            'samples': samples,
            'explanation': 'states = execution paths of the real code explored symbolically; transitions = solver '
                           'queries discharged (pre & path-condition & not property)',
            'configurations': len(parts),
            'queries': q,
            'obligations': sum(p.obligations for p in parts),
            'solver_time_s': round(sum(p.solver_time for p in parts), 3),
            'aborted_infeasible_paths': sum(p.aborted for p in parts),
            'vacuity_witnesses': sum(p.witnesses for p in parts),
            'functions_encoded': functions,
            'bounds': {p.name: p.bounds for p in parts if p.bounds},
            'inconclusive': [s for p in parts for s in p.inconclusive][:50],
            'known_findings_seen': sorted({v['finding'] for v in known}),
            'validation_failures': [s for p in parts for s in p.validation_failures][:20],
            'cross_checked_with_cvc5': {k: sum((getattr(p, 'xcheck', None) or {}).get(k, 0) for p in parts)
                                        for k in ('agree_unsat', 'cvc5_unknown', 'DISAGREE_sat', 'skipped')},
            'per_config': [{'config': p.name, 'paths': p.paths, 'queries': p.queries, 'wall_s': round(p.wall, 2)} for p in parts],
        },
        'assumptions': assumptions,
        'wall_s': round(wall, 3),
        'violations': len(viol),
    }
    if extra:
        ev['coverage'].update(extra)
    evdir = os.environ.get('VERIF_EVIDENCE_DIR') or os.path.join(VERIF, 'evidence')
    os.makedirs(evdir, exist_ok=True)
    path = os.path.join(evdir, '%s.json' % prop)
    with open(path, 'w') as fh:
        json.dump(ev, fh, indent=1, sort_keys=False)
    return ev


def write_replay(prop, rec):
    rdir = os.environ.get('VERIF_REPLAY_DIR') or os.path.join(VERIF, 'replays')
    os.makedirs(rdir, exist_ok=True)
    blob = json.dumps(rec, sort_keys=True)
    dig = hashlib.sha1(blob.encode()).hexdigest()[:10]
    path = os.path.join(rdir, '%s-%s.json' % (prop, dig))
    with open(path, 'w') as fh:
        fh.write(json.dumps({'property': prop, **rec}, indent=1))
    return path
