"""symx.loader -- load sedfitter modules from /repo's working tree with shimmed imports.

Nothing is read from an installed copy: every module is compiled from the file
under REPO on every run, and executed in a namespace whose __import__ hands out
the symbolic stand-ins for numpy / astropy.units / astropy.table / astropy.io.fits
/ scipy.interpolate (and, for harnesses that model files, pickle / os / glob).
"""
from __future__ import annotations

import builtins
import os
import sys
import types

from . import core as C
from . import symnp

REPO = os.environ.get('SEDFITTER_REPO', '/repo')
PKG = 'sedfitter'


class _Proxy(types.ModuleType):
    """A package object whose listed attributes are replaced and the rest fall through."""

    def __init__(self, real_mod, repl):
        super().__init__(real_mod.__name__)
        self.__dict__['_real'] = real_mod
        self.__dict__.update(repl)

    def __getattr__(self, name):
        return getattr(self.__dict__['_real'], name)


def s_min(*args, **kw):
    if len(args) == 1:
        args = tuple(args[0])
    if kw:
        return builtins.min(*args, **kw)
    r = args[0]
    fork = C.has_ctx() and C.ctx().ex.opts.get('minmax', 'fork') == 'fork'
    for x in args[1:]:
        if fork:
            r = x if x < r else r     # Python's own definition; the comparison forks
        else:
            r = C.s_min2(r, x)
    return r


def s_max(*args, **kw):
    if len(args) == 1:
        args = tuple(args[0])
    if kw:
        return builtins.max(*args, **kw)
    r = args[0]
    fork = C.has_ctx() and C.ctx().ex.opts.get('minmax', 'fork') == 'fork'
    for x in args[1:]:
        if fork:
            r = x if x > r else r
        else:
            r = C.s_max2(r, x)
    return r


def s_int(x=0, *a):
    if isinstance(x, C.SymInt):
        return x
    if isinstance(x, C.SymReal):
        t = x.t
        import z3
        return C.mk_int(z3.If(t >= 0, z3.ToInt(t), -z3.ToInt(-t)))
    if hasattr(x, '_symx_token_int'):
        return x._symx_token_int()
    return builtins.int(x, *a)


def s_float(x=0.0):
    if C.is_sym(x):
        return C.real(x)
    if hasattr(x, '_symx_token_float'):
        return x._symx_token_float()
    return builtins.float(x)


class Loader:
    """One Loader per harness configuration: holds the module table and the shim table."""

    def __init__(self, shims=None, builtin_overrides=None, skip_init=(PKG,), repo=None):
        from . import symunits, syminterp
        self.repo = repo or REPO
        self.modules = {}
        self.entered = set()
        self.np = symnp.make_module()
        self.shims = {
            'numpy': self.np,
            'astropy.units': symunits.module,
            'scipy.interpolate': syminterp.module,
        }
        if shims:
            self.shims.update(shims)
        self.builtin_overrides = dict(min=s_min, max=s_max, print=lambda *a, **k: None)
        if builtin_overrides:
            self.builtin_overrides.update(builtin_overrides)
        self.skip_init = set(skip_init)

    # -- path helpers
    def _path(self, name):
        rel = name.replace('.', '/')
        p = os.path.join(self.repo, rel)
        if os.path.isdir(p):
            return os.path.join(p, '__init__.py'), True
        return p + '.py', False

    def _import(self, mod):
        real_import = builtins.__import__

        def imp(nm, globals=None, locals=None, fromlist=(), level=0):
            if level:
                base = mod.__name__ if mod.__dict__.get('__path__') is not None else mod.__name__.rpartition('.')[0]
                for _ in range(level - 1):
                    base = base.rpartition('.')[0]
                target = base + ('.' + nm if nm else '')
                m = self.load(target)
                if fromlist:
                    for f in fromlist:
                        if f != '*' and not hasattr(m, f):
                            try:
                                sub = self.load(target + '.' + f)
                                setattr(m, f, sub)
                            except FileNotFoundError:
                                pass
                    return m
                return self.load(base)
            if nm == PKG or nm.startswith(PKG + '.'):
                m = self.load(nm)
                return m if fromlist else self.load(PKG)
            if nm in self.shims:
                top = nm.split('.')[0]
                if fromlist or '.' not in nm:
                    return self.shims[nm]
                return self._proxy_top(top)
            # parents of shimmed modules: `from astropy import units`, `from astropy.io import fits`
            repl = {}
            for k, v in self.shims.items():
                if k.startswith(nm + '.') and '.' not in k[len(nm) + 1:]:
                    repl[k[len(nm) + 1:]] = v
            realm = real_import(nm, globals, locals, fromlist, level)
            if repl and fromlist:
                return _Proxy(realm, repl)
            return realm
        return imp

    def _proxy_top(self, top):
        realm = builtins.__import__(top)
        repl = {}
        for k, v in self.shims.items():
            if k.startswith(top + '.') and k.count('.') == 1:
                repl[k.split('.')[1]] = v
        return _Proxy(realm, repl)

    def load(self, name):
        if name in self.modules:
            return self.modules[name]
        if '.' in name:
            self.load(name.rpartition('.')[0])
            if name in self.modules:          # loaded meanwhile by the parent package's __init__
                return self.modules[name]
        path, is_pkg = self._path(name)
        if not os.path.exists(path):
            raise FileNotFoundError(path)
        mod = types.ModuleType(name)
        mod.__file__ = path
        if is_pkg:
            mod.__path__ = [os.path.dirname(path)]
            mod.__package__ = name
        else:
            mod.__package__ = name.rpartition('.')[0]
        b = dict(builtins.__dict__)
        b.update(self.builtin_overrides)
        b['__import__'] = self._import(mod)
        mod.__dict__['__builtins__'] = b
        self.modules[name] = mod
        if name in self.skip_init:
            return mod
        with open(path) as fh:
            src = fh.read()
        code = compile(src, path, 'exec')
        exec(code, mod.__dict__)
        if '.' in name:
            parent, _, leaf = name.rpartition('.')
            setattr(self.modules[parent], leaf, mod)
        return mod

    def registered(self):
        """Context manager: expose the loaded modules through sys.modules (real pickling needs importable classes)."""
        import contextlib

        @contextlib.contextmanager
        def cm():
            saved = {k: sys.modules.get(k) for k in self.modules}
            sys.modules.update(self.modules)
            try:
                yield self
            finally:
                for k, v in saved.items():
                    if v is None:
                        sys.modules.pop(k, None)
                    else:
                        sys.modules[k] = v
        return cm()

    def get(self, dotted):
        """'sedfitter.fitting_routines:linear_regression' -> object."""
        modname, _, attr = dotted.partition(':')
        obj = self.load(modname)
        for part in attr.split('.') if attr else []:
            obj = getattr(obj, part)
        return obj

    def cut(self, dotted, tag=None):
        """Turn a function into a cut point: its symbolic outputs become fresh, defined variables."""
        modname, _, attr = dotted.partition(':')
        mod = self.load(modname)
        parts = attr.split('.')
        owner = mod
        for p in parts[:-1]:
            owner = getattr(owner, p)
        fn = owner.__dict__[parts[-1]] if isinstance(owner, type) else getattr(owner, parts[-1])
        tag = tag or parts[-1]

        def wrapped(*a, **k):
            return cut_value(fn(*a, **k), tag)
        wrapped.__name__ = getattr(fn, '__name__', tag)
        wrapped.__wrapped__ = fn
        setattr(owner, parts[-1], wrapped)
        return fn


def cut_value(val, tag):
    import numpy as np
    c = C.ctx()
    if isinstance(val, tuple):
        return tuple(cut_value(v, '%s%d' % (tag, i)) for i, v in enumerate(val))
    if isinstance(val, np.ndarray) and val.dtype == object:
        raw = symnp._plain(val)
        out = np.empty(val.shape, dtype=object)
        for pos in np.ndindex(*val.shape):
            out[pos] = c.cut(raw[pos], tag)
        r = out.view(type(val))
        if hasattr(val, '_unit'):
            r._unit = val._unit
        return r
    return c.cut(val, tag)


class Coverage:
    """Record which /repo functions were entered (sys.monitoring, tool id 3)."""

    def __init__(self, repo=None):
        self.repo = os.path.realpath(repo or REPO)
        self.seen = set()
        self.tool = 3
        self.active = False

    def __enter__(self):
        mon = sys.monitoring
        try:
            mon.use_tool_id(self.tool, 'symx')
        except ValueError:
            return self
        self.active = True

        def on_start(code, offset):
            fn = code.co_filename
            if fn.startswith(self.repo):
                self.seen.add("%s:%s" % (os.path.relpath(fn, self.repo), code.co_qualname))
            return mon.DISABLE
        mon.register_callback(self.tool, mon.events.PY_START, on_start)
        mon.set_events(self.tool, mon.events.PY_START)
        return self

    def __exit__(self, *a):
        if self.active:
            mon = sys.monitoring
            mon.set_events(self.tool, 0)
            mon.register_callback(self.tool, mon.events.PY_START, None)
            mon.free_tool_id(self.tool)
            self.active = False
        return False

    def functions(self):
        return sorted(f for f in self.seen if not f.endswith(':<module>') and '/tests/' not in f)


def real_loader(shims=None, builtin_overrides=None):
    """The same source files executed with the REAL numpy / astropy / scipy (replay, validation).

    Only difference to a plain import: the package __init__ (matplotlib imports) is skipped and
    astropy's def_physical_type tolerates being called once per Loader.
    """
    import astropy.units as _u

    def tolerant_def_physical_type(unit, name):
        try:
            _u.def_physical_type(unit, name)
        except ValueError:
            pass
    ld = Loader.__new__(Loader)
    ld.repo = REPO
    ld.modules = {}
    ld.entered = set()
    ld.np = None
    ld.shims = {'astropy.units': _Proxy(_u, {'def_physical_type': tolerant_def_physical_type})}
    if shims:
        ld.shims.update(shims)
    ld.builtin_overrides = dict(print=lambda *a, **k: None)
    if builtin_overrides:
        ld.builtin_overrides.update(builtin_overrides)
    ld.skip_init = {PKG}
    return ld
