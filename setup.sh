#!/bin/sh
# Build the overlay venv used by every check (offline; idempotent).
set -e
cd "$(dirname "$0")"
if [ -x .venv/bin/python ] && .venv/bin/python -c "import z3, numpy, astropy, scipy, jsonschema" 2>/dev/null; then
  exit 0
fi
rm -rf .venv
/venv/bin/python -m venv .venv
SP=$(.venv/bin/python -c "import sysconfig; print(sysconfig.get_paths()['purelib'])")
echo "import site; site.addsitedir('/venv/lib/python3.12/site-packages')" > "$SP/zz_venv_overlay.pth"
PIP_NO_INDEX=1 .venv/bin/python -m pip install -q --no-index --find-links /opt/veriftools/wheels z3-solver cvc5 jsonschema >/dev/null
.venv/bin/python -c "import z3, numpy, astropy, scipy; print('overlay ok', z3.get_version_string(), numpy.__version__, astropy.__version__)"
