#!/usr/bin/env python3
"""Write seeded/README.md and add a 'checks' field to each seeded/<id>/meta.json from result.txt."""
import json, os, re, glob
V = os.path.dirname(os.path.dirname(os.path.abspath(__file__)))
rows = []
for d in sorted(glob.glob(os.path.join(V, 'seeded', '*'))):
    if not os.path.isdir(d):
        continue
    sid = os.path.basename(d)
    mp, rp = os.path.join(d, 'meta.json'), os.path.join(d, 'result.txt')
    if not (os.path.exists(mp) and os.path.exists(rp)):
        continue
    meta = json.load(open(mp))
    txt = open(rp).read().splitlines()
    confirm = txt[0] if txt else ''
    checks = []
    for ln in txt[1:]:
        m = re.match(r'check (C\d+) against the patched tree: exit=(\d+) violations=(\d+) inconclusive=(\d+)', ln)
        if m:
            checks.append({'check': m.group(1), 'exit': int(m.group(2)), 'violations': int(m.group(3)), 'inconclusive': int(m.group(4)), 'first': ''})
        elif ln.startswith('  ') and checks and not checks[-1]['first']:
            checks[-1]['first'] = ln.strip()[:200]
    meta['confirmation'] = confirm
    meta['checks'] = checks
    meta['ran_by_verifier'] = ['tools/seedtest.sh %s %s' % (sid, ' '.join(c['check'] for c in checks))]
    json.dump(meta, open(mp, 'w'), indent=1)
    caught = [c['check'] for c in checks if c['exit'] == 1 and c['violations'] > 0]
    rows.append((sid, meta.get('property', sid[:3]), meta.get('summary', '')[:160].replace('\n', ' '), meta.get('needs', '')[:160].replace('\n', ' '),
                 ', '.join(caught) if caught else 'NOT CAUGHT (' + ', '.join('%s exit %d' % (c['check'], c['exit']) for c in checks) + ')'))
with open(os.path.join(V, 'seeded', 'README.md'), 'w') as fh:
    fh.write("# Seeded changes\n\nEach directory holds `patch.diff` (a change to astrofrog/sedfitter that breaks the named property while the\n"
             "test suite still passes), `demo.py` (fails with the change, passes without), `meta.json` (what it needs to manifest, what was run,\n"
             "which checks report it) and `result.txt` (raw output of `tools/seedtest.sh`). Produced by independent sub-agents given only the\n"
             "property text; none of them is ever committed to /repo.\n\n| seed | property | change | needs | caught by |\n|---|---|---|---|---|\n")
    for r in rows:
        fh.write("| %s | %s | %s | %s | %s |\n" % r)
print("%d seeds summarised; not caught: %s" % (len(rows), [r[0] for r in rows if r[4].startswith('NOT')]))
