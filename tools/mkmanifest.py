#!/usr/bin/env python3
"""Regenerate MANIFEST.json from the table below (keeps it schema-valid at all times)."""
import json, os
HERE = os.path.dirname(os.path.dirname(os.path.abspath(__file__)))

TECH = ("symbolic execution of the real /repo functions over z3 terms (operator-overloading shims for "
        "numpy/astropy), DFS path exploration, per-path SMT queries pre & path-condition & not property "
        "(z3 5.1), counterexamples replayed on the real code")

CLAIMED = {
    # id: (level text, level note, design ref)
}

PENDING_REASON = "harness not built yet in this round (see DESIGN.md section 10); not claimed until its check exists and is free of false alarms"

def load_claims():
    p = os.path.join(HERE, 'tools', 'claims.json')
    return json.load(open(p)) if os.path.exists(p) else {}

def main():
    claims = load_claims()
    props = [json.loads(l)['id'] for l in open(os.path.join(HERE, 'properties.jsonl'))]
    checks, na = [], []
    for pid in props:
        c = claims.get(pid)
        if c and c.get('claimed'):
            checks.append({
                "property_id": pid,
                "quick_cmd": "./vcheck %s --tier quick" % pid,
                "thorough_cmd": "./vcheck %s --tier thorough" % pid,
                "evidence_file": "evidence/%s.json" % pid,
                "replay_cmd_template": "./vcheck %s --replay {path}" % pid,
                "engine": "symx",
                "level_claimed": {"category": "model_checking", "text": c['text'], "design_ref": c.get('design_ref', 'DESIGN.md section 5')},
                "level_note": c['note'],
                "technique": c.get('technique', TECH),
            })
        else:
            na.append({"property_id": pid, "reason": (c or {}).get('reason', PENDING_REASON)})
    man = {
        "version": 1,
        "setup_cmd": "./setup.sh",
        "hooks": {
            "guard": "SEDFITTER_VERIF",
            "enable": "no source hooks are needed: checks load /repo's working tree from source under import shims (symx.loader); the guard variable is unused",
            "baseline_off_cmd": "cd /repo && /venv/bin/python -m pytest -ra -q -p no:cacheprovider --timeout=900 --continue-on-collection-errors",
            "source_commits": [],
            "add_only": True,
        },
        "engines": [{
            "name": "symx", "path": "symx/",
            "serves_properties": [c["property_id"] for c in checks],
            "kind_free_text": "bounded symbolic execution of the real Python source over z3 terms; one SMT query per path and obligation; replay of models on the real code",
        }],
        "checks": checks,
        "not_applicable": na,
        "notes": "Exit codes: 0 property held on everything explored; 1 VIOLATION (replayed on the real code); 2 INCONCLUSIVE (solver unknown, model not reproducible, code the shims cannot follow) - never reported as success. Genuine defects found and repaired are listed in known_findings.json (status fixed).",
    }
    json.dump(man, open(os.path.join(HERE, 'MANIFEST.json'), 'w'), indent=1)
    print("MANIFEST: %d checks, %d not applicable" % (len(checks), len(na)))

if __name__ == '__main__':
    main()
