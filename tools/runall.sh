#!/bin/sh
# run every claimed check (quick tier) sequentially; log to scratch/all.log
cd "$(dirname "$0")/.."
mkdir -p scratch
TIER=${1:-quick}
: > scratch/all-$TIER.log
for p in $(python3 -c "import json; print(' '.join(c['property_id'] for c in json.load(open('MANIFEST.json'))['checks']))"); do
  s=$(date +%s)
  ./vcheck $p --tier $TIER > scratch/run-$p-$TIER.log 2>&1; rc=$?
  e=$(date +%s)
  echo "$p exit=$rc wall=$((e-s))s $(head -1 scratch/run-$p-$TIER.log | cut -c1-160)" >> scratch/all-$TIER.log
done
echo finished >> scratch/all-$TIER.log
