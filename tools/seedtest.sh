#!/bin/sh
# tools/seedtest.sh <ID> [<check ids...>]
# Confirm a seeded change and run checks against it.  The patched tree lives in a scratch worktree of /repo
# (SEDFITTER_REPO points the checks at it), so several seeds can be examined in parallel and /repo stays clean.
#   1. copy the seed from /tmp/wt-<ID>/_seed into /verif/seeded/<ID>/ (if present)
#   2. demo passes on the clean tree, fails with the patch; pytest on the patched tree
#   3. ./vcheck <checks> against the patched tree; results appended to seeded/<ID>/result.txt
set -u
ID=$1; shift
CHECKS=${*:-$ID}
V=/verif
mkdir -p $V/seeded/$ID $V/scratch
if [ -d /tmp/wt-$ID/_seed ]; then cp /tmp/wt-$ID/_seed/patch.diff /tmp/wt-$ID/_seed/demo.py /tmp/wt-$ID/_seed/meta.json $V/seeded/$ID/ 2>/dev/null; fi
S=/tmp/seedchk-$ID
git -C /repo worktree remove --force $S 2>/dev/null; rm -rf $S
git -C /repo worktree add -q --detach $S HEAD || exit 3
mkdir -p $S/_seed
sed "s#/tmp/wt-$ID#$S#g" $V/seeded/$ID/demo.py > $S/_seed/demo.py      # demos locate the package relative to _seed/demo.py
( cd $S && timeout 900 /venv/bin/python _seed/demo.py > $V/scratch/seed-$ID-clean.out 2>&1 ); CLEAN=$?
( cd $S && git apply $V/seeded/$ID/patch.diff ) || { echo "$ID: patch does not apply"; git -C /repo worktree remove --force $S; exit 3; }
( cd $S && timeout 900 /venv/bin/python _seed/demo.py > $V/scratch/seed-$ID-mut.out 2>&1 ); MUT=$?
PYT=$( cd $S && timeout 1500 /venv/bin/python -m pytest -q -p no:cacheprovider sedfitter 2>&1 | tail -1 )
OUT=$V/seeded/$ID/result.txt
if [ -n "${SEEDTEST_CONFIRM_ONLY:-}" ] && [ -f $OUT ]; then
  # only refresh the confirmation line, keep the recorded check results
  tail -n +2 $OUT > $OUT.tmp; echo "seed $ID: demo on clean tree exit=$CLEAN, with patch exit=$MUT; pytest with patch: $PYT" > $OUT; cat $OUT.tmp >> $OUT; rm -f $OUT.tmp
  git -C /repo worktree remove --force $S; head -1 $OUT; exit 0
fi
echo "seed $ID: demo on clean tree exit=$CLEAN, with patch exit=$MUT; pytest with patch: $PYT" > $OUT
for c in $CHECKS; do
  ( cd $V && SEDFITTER_REPO=$S VERIF_EVIDENCE_DIR=$V/scratch/seed-evidence-$ID VERIF_REPLAY_DIR=$V/scratch/seed-replays timeout 3600 ./vcheck $c --tier quick > $V/scratch/seed-$ID-$c.log 2>&1 ); RC=$?
  echo "check $c against the patched tree: exit=$RC violations=$(grep -c '^VIOLATION' $V/scratch/seed-$ID-$c.log) inconclusive=$(grep -c '^INCONCLUSIVE' $V/scratch/seed-$ID-$c.log)" >> $OUT
  grep -A1 -m2 '^VIOLATION' $V/scratch/seed-$ID-$c.log | grep '^  ' | cut -c1-220 >> $OUT
done
git -C /repo worktree remove --force $S
cat $OUT
