#!/bin/sh
# tools/seedtest.sh <ID> [<check ids...>]  : confirm a seeded change (from /tmp/wt-<ID>/_seed or seeded/<ID>) and run checks against it
# 1. copy the seed into /verif/seeded/<ID>/   2. in a scratch worktree: demo passes without / fails with the patch
# 3. apply the patch to /repo, run ./vcheck for the listed checks (default: <ID>), undo.
set -u
ID=$1; shift
CHECKS=${*:-$ID}
V=/verif
mkdir -p $V/seeded/$ID
if [ -d /tmp/wt-$ID/_seed ]; then cp /tmp/wt-$ID/_seed/patch.diff /tmp/wt-$ID/_seed/demo.py /tmp/wt-$ID/_seed/meta.json $V/seeded/$ID/ 2>/dev/null; fi
S=/tmp/seedchk-$ID
rm -rf $S; git -C /repo worktree add -q --detach $S HEAD || exit 3
cp $V/seeded/$ID/demo.py $S/_demo.py
sed -i "s#/tmp/wt-$ID#$S#g" $S/_demo.py
( cd $S && timeout 600 /venv/bin/python _demo.py > /tmp/seed-$ID-clean.out 2>&1 ); CLEAN=$?
( cd $S && git apply $V/seeded/$ID/patch.diff ) || { echo "$ID: patch does not apply"; git -C /repo worktree remove --force $S; exit 3; }
( cd $S && timeout 600 /venv/bin/python _demo.py > /tmp/seed-$ID-mut.out 2>&1 ); MUT=$?
( cd $S && timeout 900 /venv/bin/python -m pytest -q -p no:cacheprovider sedfitter 2>&1 | tail -1 > /tmp/seed-$ID-pytest.out )
git -C /repo worktree remove --force $S
echo "$ID: demo clean=$CLEAN mutated=$MUT pytest: $(cat /tmp/seed-$ID-pytest.out)"
git -C /repo apply $V/seeded/$ID/patch.diff || { echo "cannot apply to /repo"; exit 3; }
for c in $CHECKS; do
  ( cd $V && timeout 3000 ./vcheck $c --tier quick > $V/scratch/seed-$ID-$c.log 2>&1 ); RC=$?
  echo "  check $c exit=$RC $(grep -c '^VIOLATION' $V/scratch/seed-$ID-$c.log) violations; $(grep -m1 '^  ' $V/scratch/seed-$ID-$c.log | cut -c1-160)"
done
git -C /repo checkout -- .
git -C /repo status --short | head -3
