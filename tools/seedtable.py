#!/usr/bin/env python3
"""Replace the seeded-changes table of DESIGN.md (between the markers) by one generated from seeded/*/meta.json."""
import json, os, glob, re
V = os.path.dirname(os.path.dirname(os.path.abspath(__file__)))
rows = []
for d in sorted(glob.glob(os.path.join(V, 'seeded', '*'))):
    mp = os.path.join(d, 'meta.json')
    if not os.path.exists(mp):
        continue
    m = json.load(open(mp))
    sid = os.path.basename(d)
    caught = [c for c in m.get('checks', []) if c['exit'] == 1 and c['violations'] > 0]
    others = [c for c in m.get('checks', []) if not (c['exit'] == 1 and c['violations'] > 0)]
    what = re.sub(r'\s+', ' ', m.get('summary', ''))[:150].replace('|', '/')
    first = (caught[0]['first'][:110].replace('|', '/') if caught else '')
    res = ', '.join('%s (%d)' % (c['check'], c['violations']) for c in caught) or 'NOT CAUGHT'
    if others and caught:
        res += '; ' + ', '.join('%s exit %d' % (c['check'], c['exit']) for c in others)
    rows.append('| %s | %s | %s | %s | %s |' % (sid, m.get('property', ''), what, res, first))
table = '| seed | property | change (abridged) | caught by (violations) | first obligation that failed |\n|---|---|---|---|---|\n' + '\n'.join(rows)
p = os.path.join(V, 'DESIGN.md')
h = open(p).read()
B, E = '<!-- seedtable:begin -->', '<!-- seedtable:end -->'
if '@@SEEDTABLE@@' in h:
    h = h.replace('@@SEEDTABLE@@', B + '\n' + table + '\n' + E)
else:
    a, b = h.index(B), h.index(E)
    h = h[:a] + B + '\n' + table + '\n' + h[b:]
open(p, 'w').write(h)
print(len(rows), 'rows')
